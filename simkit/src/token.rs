//! Thread token scheduler: real threads, one at a time.  (filled in with the
//! storage-level harnesses)
