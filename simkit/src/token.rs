//! Thread token scheduler: real threads, one at a time.
//!
//! `N` harness threads are registered; exactly one holds the token.  At a
//! `point(site)` the running thread parks and the seeded stream chooses what
//! happens next: another parked thread continues, or an *extra action*
//! (for instance one step of the write-behind pipeline) is performed by the
//! token holder.  Code between two points is atomic with respect to the other
//! registered threads, so an execution is a function of the decision list.

use std::{
    cell::Cell,
    collections::BTreeMap,
    sync::{Arc, Condvar, Mutex},
};

use crate::{Rng, fnv_step, label};

#[derive(Clone, Debug, PartialEq, Eq)]
enum St {
    NotStarted,
    Parked,
    Running,
    Finished,
}

/// Extra actions the scheduler may interleave with the threads.
pub trait Extras: Send + Sync {
    /// labels of the actions that are possible right now (stable order)
    fn available(&self) -> Vec<String>;
    /// perform the action with this label (called by the token holder)
    fn perform(&self, label: &str);
}

struct TS {
    rng: Rng,
    state: Vec<St>,
    current: Option<usize>,
    /// recorded choices (labels), for the trace / replay file
    pub choices: Vec<String>,
    replay: Option<Vec<String>>,
    replay_pos: usize,
    trace_hash: u64,
    events: u64,
    hits: BTreeMap<&'static str, u64>,
    switches: u64,
    extra_steps: u64,
    /// probability (num/den) of staying on the current thread at a point
    stay_num: u64,
    stay_den: u64,
    panicked: Option<String>,
    /// PCT mode (a third of the runs, decided by the seed): every actor - a
    /// thread, or one kind of extra action - has a priority, the runnable
    /// actor with the highest priority runs, and at `depth - 1` random steps
    /// the running actor drops below everybody else. One actor can stay
    /// parked at a point for arbitrarily many steps of the others, which the
    /// uniform strategy reaches with probability 2^-steps.
    pct: Option<Pct>,
}

struct Pct {
    prio: BTreeMap<String, u64>,
    change_at: Vec<u64>,
    step: u64,
    next_low: u64,
    /// stalls: a thread that reaches a scheduling point inside an operation
    /// (the hand-placed points mark race windows) drops below everybody
    /// else with probability 1 / `stall_k`, at most `stalls_left` times
    stalls_left: u64,
    stall_k: u64,
}

/// the actor a choice label belongs to: `T3`, or `X:ser` for `X:ser:17`
fn actor(label: &str) -> String {
    match label.strip_prefix("X:") {
        Some(rest) => format!("X:{}", rest.split(':').next().unwrap_or("")),
        None => label.to_string(),
    }
}

/// sites at which the calling thread cannot make progress by itself
fn is_wait_site(site: &str) -> bool { site == "await_pending" || site == "shard_lock_wait" }

pub struct Sched {
    m: Mutex<TS>,
    cv: Condvar,
    extras: Option<Arc<dyn Extras>>,
    on_point: Option<Arc<dyn Fn(&'static str) + Send + Sync>>,
}

thread_local! {
    static ME: Cell<Option<usize>> = const { Cell::new(None) };
}

static ACTIVE: Mutex<Option<Arc<Sched>>> = Mutex::new(None);

pub struct Report {
    pub choices: Vec<String>,
    pub trace_hash: u64,
    pub events: u64,
    pub hits: BTreeMap<&'static str, u64>,
    pub switches: u64,
    pub extra_steps: u64,
    pub panicked: Option<String>,
    pub replay_diverged: bool,
}

pub struct Config {
    pub seed: u64,
    pub stay: (u64, u64),
    pub replay: Option<Vec<String>>,
    pub extras: Option<Arc<dyn Extras>>,
    pub on_point: Option<Arc<dyn Fn(&'static str) + Send + Sync>>,
}

impl Sched {
    /// choose the next option; must be called with the lock held by the
    /// token holder.  Returns the label.
    fn choose(&self, g: &mut TS, me: Option<usize>) -> Option<String> {
        let mut opts: Vec<String> = Vec::new();
        for (i, s) in g.state.iter().enumerate() {
            if *s == St::Parked || (*s == St::NotStarted) {
                opts.push(format!("T{i}"));
            }
        }
        if opts.is_empty() {
            // no thread left: extra actions alone are not performed (what is
            // still in flight stays in flight)
            return None;
        }
        if let Some(x) = &self.extras {
            opts.extend(x.available().into_iter().map(|l| format!("X:{l}")));
        }
        let pick = if let Some(r) = &g.replay {
            let want = r.get(g.replay_pos).cloned();
            g.replay_pos += 1;
            match want {
                Some(w) if opts.contains(&w) => w,
                _ => opts[0].clone(),
            }
        } else if g.pct.is_some() {
            let TS { pct, rng, .. } = &mut *g;
            let p = pct.as_mut().unwrap();
            p.step += 1;
            for o in &opts {
                let a = actor(o);
                if !p.prio.contains_key(&a) {
                    // a new actor gets a random high priority
                    let v = 1_000_000 + rng.below(1_000_000);
                    p.prio.insert(a, v);
                }
            }
            let best = opts.iter().max_by_key(|o| (p.prio[&actor(o)], std::cmp::Reverse((*o).clone()))).unwrap().clone();
            if p.change_at.contains(&p.step) {
                // priority change point: the actor that would run drops below all
                p.next_low -= 1;
                let low = p.next_low;
                p.prio.insert(actor(&best), low);
                opts.iter().max_by_key(|o| (p.prio[&actor(o)], std::cmp::Reverse((*o).clone()))).unwrap().clone()
            } else {
                best
            }
        } else {
            let me_label = me.map(|m| format!("T{m}"));
            if let Some(ml) = &me_label
                && opts.contains(ml)
                && g.rng.chance(g.stay_num, g.stay_den)
            {
                ml.clone()
            } else {
                let i = g.rng.usize(opts.len());
                opts[i].clone()
            }
        };
        g.choices.push(pick.clone());
        g.trace_hash = fnv_step(g.trace_hash, label(&pick));
        Some(pick)
    }

    /// hand the token on according to the seeded stream; `me` parks (if it
    /// is still alive) until it is chosen again.
    fn reschedule(&self, me: Option<usize>, alive: bool) {
        let mut g = self.m.lock().unwrap();
        if let Some(m) = me {
            g.state[m] = if alive { St::Parked } else { St::Finished };
        }
        loop {
            let Some(pick) = self.choose(&mut g, if alive { me } else { None }) else {
                // nothing left to run
                g.current = None;
                self.cv.notify_all();
                return;
            };
            if let Some(l) = pick.strip_prefix("X:") {
                g.extra_steps += 1;
                let x = self.extras.clone().unwrap();
                let l = l.to_string();
                drop(g);
                x.perform(&l);
                g = self.m.lock().unwrap();
                continue;
            }
            let t: usize = pick[1..].parse().unwrap();
            if Some(t) != me {
                g.switches += 1;
            }
            g.current = Some(t);
            g.state[t] = St::Running;
            self.cv.notify_all();
            if Some(t) == me {
                return;
            }
            if !alive {
                return;
            }
            // wait until chosen again
            let m = me.unwrap();
            while g.current != Some(m) {
                g = self.cv.wait(g).unwrap();
            }
            return;
        }
    }
}

/// A scheduling point of the calling thread.  No-op on threads that are not
/// registered with the active scheduler.
pub fn point(site: &'static str) {
    let Some(me) = ME.with(Cell::get) else { return };
    let Some(s) = ACTIVE.lock().unwrap().clone() else { return };
    {
        let mut g = s.m.lock().unwrap();
        g.events += 1;
        *g.hits.entry(site).or_insert(0) += 1;
        g.trace_hash = fnv_step(g.trace_hash, label(site));
        let TS { pct, rng, .. } = &mut *g;
        if let Some(p) = pct.as_mut() {
            // a waiting thread yields to everybody else; a thread inside a
            // race window is sometimes stalled there
            let stall = site != "h_op" && p.stalls_left > 0 && rng.chance(1, p.stall_k);
            if stall {
                p.stalls_left -= 1;
            }
            if is_wait_site(site) || stall {
                p.next_low -= 1;
                let low = p.next_low;
                p.prio.insert(format!("T{me}"), low);
            }
        }
    }
    if let Some(f) = &s.on_point {
        f(site);
    }
    s.reschedule(Some(me), true);
}

pub fn is_registered() -> bool { ME.with(Cell::get).is_some() }

/// Run `bodies` as token-scheduled threads to completion.
pub fn run(cfg: Config, bodies: Vec<Box<dyn FnOnce() + Send>>) -> Report {
    let n = bodies.len();
    let replaying = cfg.replay.is_some();
    let pct = {
        let mut r = Rng::new(cfg.seed).split(label("token-pct"));
        if !replaying && r.chance(1, 3) {
            let depth = r.range(1, 4);
            let horizon = *r.pick(&[30u64, 100, 300, 1000]);
            Some(Pct {
                prio: BTreeMap::new(),
                change_at: (1..depth).map(|_| r.range(1, horizon)).collect(),
                step: 0,
                next_low: 1_000_000,
                stalls_left: r.range(0, 3),
                stall_k: *r.pick(&[4u64, 16, 64]),
            })
        } else {
            None
        }
    };
    let s = Arc::new(Sched {
        m: Mutex::new(TS {
            pct,
            rng: Rng::new(cfg.seed).split(label("token-schedule")),
            state: vec![St::NotStarted; n],
            current: None,
            choices: Vec::new(),
            replay: cfg.replay,
            replay_pos: 0,
            trace_hash: 0xcbf2_9ce4_8422_2325,
            events: 0,
            hits: BTreeMap::new(),
            switches: 0,
            extra_steps: 0,
            stay_num: cfg.stay.0,
            stay_den: cfg.stay.1.max(1),
            panicked: None,
        }),
        cv: Condvar::new(),
        extras: cfg.extras,
        on_point: cfg.on_point,
    });
    *ACTIVE.lock().unwrap() = Some(s.clone());
    let mut handles = Vec::new();
    for (i, body) in bodies.into_iter().enumerate() {
        let s2 = s.clone();
        handles.push(
            std::thread::Builder::new()
                .name(format!("sim-T{i}"))
                .spawn(move || {
                    ME.with(|m| m.set(Some(i)));
                    // structures that stripe by OS thread id use this slot
                    qbice_storage::verif::set_thread_slot(i);
                    {
                        let mut g = s2.m.lock().unwrap();
                        while g.current != Some(i) {
                            g = s2.cv.wait(g).unwrap();
                        }
                    }
                    let r = std::panic::catch_unwind(std::panic::AssertUnwindSafe(body));
                    if let Err(p) = r {
                        let msg = p
                            .downcast_ref::<&str>()
                            .map(|s| (*s).to_string())
                            .or_else(|| p.downcast_ref::<String>().cloned())
                            .unwrap_or_else(|| "<non-string payload>".into());
                        let mut g = s2.m.lock().unwrap();
                        if g.panicked.is_none() {
                            g.panicked = Some(format!("thread T{i}: {msg}"));
                        }
                    }
                    s2.reschedule(Some(i), false);
                    ME.with(|m| m.set(None));
                })
                .unwrap(),
        );
    }
    // start: the main thread makes the first decision
    s.reschedule(None, false);
    for h in handles {
        let _ = h.join();
    }
    *ACTIVE.lock().unwrap() = None;
    let g = s.m.lock().unwrap();
    Report {
        choices: g.choices.clone(),
        trace_hash: g.trace_hash,
        events: g.events,
        hits: g.hits.clone(),
        switches: g.switches,
        extra_steps: g.extra_steps,
        panicked: g.panicked.clone(),
        replay_diverged: replaying && g.replay_pos > g.replay.as_ref().map_or(0, Vec::len),
    }
}
