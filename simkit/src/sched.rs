//! Async controller: seeded yield injection on a single-threaded runtime.
//!
//! Every hook point (`task_point(site, kind)`) asks the controller installed
//! in a thread-local for a yield count `n >= 0` and re-queues the current
//! task `n` times.  Decisions are keyed by `(site, occurrence-of-site)`, so a
//! replay file can list only the non-zero ones and a shrinker can delete
//! them independently.

use std::{
    cell::RefCell,
    collections::HashMap,
    future::Future,
    pin::Pin,
    task::{Context, Poll},
};

use crate::{Rng, fnv_step, label, mix};

#[derive(Clone, Copy, Debug, PartialEq, Eq)]
pub enum Kind {
    /// between two statements with no `.await` in the real code
    Preempt,
    /// adjacent to an existing `.await` that can be Pending
    Await,
    /// harness-level point (inside a harness executor / between requests)
    Harness,
}

#[derive(Clone, Debug)]
pub enum Strategy {
    /// no injected yields
    Off,
    /// each point yields with probability num/den, 1..=k times
    Uniform { num: u64, den: u64, k: u32 },
    /// at `points` (event indices) starve the current task for `burst` polls
    Pct { points: Vec<u64>, burst: u32 },
    /// replay an explicit decision list; absent => 0
    Replay,
}

#[derive(Clone, Debug, Default, serde::Serialize, serde::Deserialize)]
pub struct Decision {
    pub site: String,
    pub occ: u64,
    pub n: u32,
}

pub struct Controller {
    pub rng: Rng,
    pub strategy: Strategy,
    pub preempt_on: bool,
    pub await_on: bool,
    pub harness_on: bool,
    /// buggify-style site subset: if Some(salt), a site is active only when
    /// mix(salt, label(site)) % 4 != 0
    pub site_salt: Option<u64>,
    pub replay: HashMap<(String, u64), u32>,
    pub decisions: Vec<Decision>,
    pub occ: HashMap<&'static str, u64>,
    pub hits: HashMap<&'static str, u64>,
    pub events: u64,
    pub yields: u64,
    pub trace_hash: u64,
    pub event_cap: u64,
    pub capped: bool,
}

impl Controller {
    pub fn new(rng: Rng, strategy: Strategy) -> Self {
        Controller {
            rng,
            strategy,
            preempt_on: true,
            await_on: true,
            harness_on: true,
            site_salt: None,
            replay: HashMap::new(),
            decisions: Vec::new(),
            occ: HashMap::new(),
            hits: HashMap::new(),
            events: 0,
            yields: 0,
            trace_hash: 0xcbf2_9ce4_8422_2325,
            event_cap: 2_000_000,
            capped: false,
        }
    }

    pub fn replaying(decisions: &[Decision]) -> Self {
        let mut c = Controller::new(Rng::new(0), Strategy::Replay);
        for d in decisions {
            c.replay.insert((d.site.clone(), d.occ), d.n);
        }
        c
    }

    fn decide(&mut self, site: &'static str, kind: Kind) -> u32 {
        self.events += 1;
        *self.hits.entry(site).or_insert(0) += 1;
        let occ = {
            let e = self.occ.entry(site).or_insert(0);
            let o = *e;
            *e += 1;
            o
        };
        if self.events > self.event_cap {
            self.capped = true;
            return 0;
        }
        let on = match kind {
            Kind::Preempt => self.preempt_on,
            Kind::Await => self.await_on,
            Kind::Harness => self.harness_on,
        };
        let n = if !on {
            0
        } else {
            match &self.strategy {
                Strategy::Off => 0,
                Strategy::Replay => {
                    self.replay.get(&(site.to_string(), occ)).copied().unwrap_or(0)
                }
                Strategy::Uniform { num, den, k } => {
                    let (num, den, k) = (*num, *den, *k);
                    let active = self
                        .site_salt
                        .is_none_or(|s| mix(s, label(site)) % 4 != 0);
                    // always draw, so that the site subset does not shift
                    // the stream
                    let hit = self.rng.chance(num, den);
                    let cnt = 1 + self.rng.below(u64::from(k)) as u32;
                    if active && hit { cnt } else { 0 }
                }
                Strategy::Pct { points, burst } => {
                    if points.contains(&self.events) { *burst } else { 0 }
                }
            }
        };
        if n > 0 {
            self.decisions.push(Decision { site: site.to_string(), occ, n });
            self.yields += u64::from(n);
        }
        self.trace_hash = fnv_step(self.trace_hash, label(site) ^ u64::from(n));
        n
    }
}

thread_local! {
    static CONTROLLER: RefCell<Option<Controller>> = const { RefCell::new(None) };
}

pub fn install(c: Controller) {
    CONTROLLER.with(|x| *x.borrow_mut() = Some(c));
}

pub fn take() -> Option<Controller> { CONTROLLER.with(|x| x.borrow_mut().take()) }

pub fn with<R>(f: impl FnOnce(&mut Controller) -> R) -> Option<R> {
    CONTROLLER.with(|x| x.borrow_mut().as_mut().map(f))
}

/// Ask the controller (if any) how often the current task should yield here.
pub fn decide(site: &'static str, kind: Kind) -> u32 {
    CONTROLLER.with(|x| {
        x.borrow_mut().as_mut().map_or(0, |c| c.decide(site, kind))
    })
}

/// Record a plain event (no decision) into the trace hash / probes.
pub fn probe(site: &'static str) {
    CONTROLLER.with(|x| {
        if let Some(c) = x.borrow_mut().as_mut() {
            *c.hits.entry(site).or_insert(0) += 1;
        }
    });
}

pub struct YieldOnce(bool);

impl Future for YieldOnce {
    type Output = ();
    fn poll(mut self: Pin<&mut Self>, cx: &mut Context<'_>) -> Poll<()> {
        if self.0 {
            Poll::Ready(())
        } else {
            self.0 = true;
            cx.waker().wake_by_ref();
            Poll::Pending
        }
    }
}

pub fn yield_once() -> YieldOnce { YieldOnce(false) }

pub async fn task_point(site: &'static str, kind: Kind) {
    let n = decide(site, kind);
    for _ in 0..n {
        yield_once().await;
    }
}

/// Drops the wrapped future after its `n`-th `Pending` (n >= 1).  Resolves to
/// `Ok(output)` if the future completed first, `Err(pendings_seen)` if it
/// was cancelled.  With `n == 0` it never cancels and counts suspensions.
pub struct CancelAt<F: Future> {
    fut: Option<Pin<Box<F>>>,
    n: u64,
    pub seen: u64,
}

impl<F: Future> CancelAt<F> {
    pub fn new(fut: F, n: u64) -> Self {
        CancelAt { fut: Some(Box::pin(fut)), n, seen: 0 }
    }
}

pub enum Cancelled<T> {
    Completed(T, u64),
    Dropped(u64),
}

impl<F: Future> Future for CancelAt<F> {
    type Output = Cancelled<F::Output>;
    fn poll(mut self: Pin<&mut Self>, cx: &mut Context<'_>) -> Poll<Self::Output> {
        let this = unsafe { self.as_mut().get_unchecked_mut() };
        let Some(f) = this.fut.as_mut() else {
            return Poll::Ready(Cancelled::Dropped(this.seen));
        };
        match f.as_mut().poll(cx) {
            Poll::Ready(v) => {
                this.fut = None;
                Poll::Ready(Cancelled::Completed(v, this.seen))
            }
            Poll::Pending => {
                this.seen += 1;
                if this.n != 0 && this.seen >= this.n {
                    // drop the future right here, at this suspension point
                    this.fut = None;
                    Poll::Ready(Cancelled::Dropped(this.seen))
                } else {
                    Poll::Pending
                }
            }
        }
    }
}
