//! simkit: the pieces every harness shares.
//!
//! * `Rng`        - SplitMix64; one integer decides everything.
//! * `sched`      - the async controller: seeded yield injection at hook
//!                  points on a single-threaded runtime, with an explicit,
//!                  replayable decision list.
//! * `panics`     - process-wide panic recorder (silent hook).
//! * `fnv`        - stable 64-bit hash for traces / distinctness counting.

pub mod abort;
pub mod panics;
pub mod pipeline;
pub mod simkv;
pub mod sched;
pub mod token;

/// SplitMix64. Deterministic, seedable, splittable.
#[derive(Clone, Debug)]
pub struct Rng(pub u64);

impl Rng {
    pub fn new(seed: u64) -> Self { Rng(seed ^ 0x9E37_79B9_7F4A_7C15) }

    pub fn next_u64(&mut self) -> u64 {
        self.0 = self.0.wrapping_add(0x9E37_79B9_7F4A_7C15);
        let mut z = self.0;
        z = (z ^ (z >> 30)).wrapping_mul(0xBF58_476D_1CE4_E5B9);
        z = (z ^ (z >> 27)).wrapping_mul(0x94D0_49BB_1331_11EB);
        z ^ (z >> 31)
    }

    /// Independent stream derived from this one and a label.
    pub fn split(&self, label: u64) -> Rng {
        let mut r = Rng(self.0 ^ label.wrapping_mul(0xD6E8_FEB8_6659_FD93));
        r.next_u64();
        Rng(r.next_u64())
    }

    /// uniform in 0..n (n > 0)
    pub fn below(&mut self, n: u64) -> u64 {
        debug_assert!(n > 0);
        self.next_u64() % n
    }

    pub fn range(&mut self, lo: u64, hi_incl: u64) -> u64 {
        lo + self.below(hi_incl - lo + 1)
    }

    pub fn usize(&mut self, n: usize) -> usize { self.below(n as u64) as usize }

    /// true with probability num/den
    pub fn chance(&mut self, num: u64, den: u64) -> bool {
        self.below(den) < num
    }

    pub fn pick<'a, T>(&mut self, xs: &'a [T]) -> &'a T {
        &xs[self.usize(xs.len())]
    }

    pub fn shuffle<T>(&mut self, xs: &mut [T]) {
        for i in (1..xs.len()).rev() {
            let j = self.usize(i + 1);
            xs.swap(i, j);
        }
    }
}

pub fn mix(a: u64, b: u64) -> u64 {
    let mut r = Rng(a ^ b.rotate_left(32) ^ 0x5851_F42D_4C95_7F2D);
    r.next_u64();
    r.next_u64()
}

/// FNV-1a 64 over bytes; used for distinctness counting and trace hashes.
pub fn fnv(bytes: &[u8]) -> u64 {
    let mut h: u64 = 0xcbf2_9ce4_8422_2325;
    for b in bytes {
        h ^= u64::from(*b);
        h = h.wrapping_mul(0x0000_0100_0000_01B3);
    }
    h
}

pub fn fnv_step(h: u64, x: u64) -> u64 {
    let mut h = h;
    for b in x.to_le_bytes() {
        h ^= u64::from(b);
        h = h.wrapping_mul(0x0000_0100_0000_01B3);
    }
    h
}

pub fn label(s: &str) -> u64 { fnv(s.as_bytes()) }

pub fn env_u64(name: &str, default: u64) -> u64 {
    std::env::var(name).ok().and_then(|s| s.parse().ok()).unwrap_or(default)
}
