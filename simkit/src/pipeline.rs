//! Freeze / drain control of the real write-behind pipeline threads.
//!
//! The pipeline's serializer, commit and after-commit threads are real OS
//! threads.  Through the `wb_*` thread points they park at a gate right after
//! receiving a task; the simulation thread decides (from its seeded stream)
//! when to open the gate and then waits until the pipeline is quiescent
//! again.  Between two drains nothing reaches the simulated disk and no
//! after-commit notification is delivered, so the simulation thread's
//! execution is a function of the decisions only.

use std::sync::{Condvar, Mutex};

#[derive(Default, Debug, Clone, Copy)]
pub struct Counters {
    pub created: u64,
    pub submitted: u64,
    pub serialized: u64,
    pub commit_processed: u64,
    pub ac_sent: u64,
    pub ac_done: u64,
    pub ac_done_shutdown: u64,
    pub drains: u64,
}

struct GateState {
    open: bool,
    forever: bool,
    /// when false the gate is never closed (free-running pipeline)
    enabled: bool,
    c: Counters,
}

pub struct Gate {
    m: Mutex<GateState>,
    cv: Condvar,
}

pub static GATE: Gate = Gate {
    m: Mutex::new(GateState {
        open: true,
        forever: true,
        enabled: false,
        c: Counters {
            created: 0,
            submitted: 0,
            serialized: 0,
            commit_processed: 0,
            ac_sent: 0,
            ac_done: 0,
            ac_done_shutdown: 0,
            drains: 0,
        },
    }),
    cv: Condvar::new(),
};

fn quiescent(c: &Counters) -> bool {
    c.serialized == c.submitted && c.commit_processed == c.serialized && c.ac_done == c.ac_sent
}

/// called from the `event` hook on any thread
pub fn on_event(site: &'static str, _a: u64, b: u64) {
    if !site.starts_with("wb_") {
        return;
    }
    let mut g = GATE.m.lock().unwrap();
    match site {
        "wb_created" => g.c.created += 1,
        "wb_submit" => g.c.submitted += 1,
        "wb_serialized" => g.c.serialized += 1,
        "wb_commit_processed" => g.c.commit_processed += 1,
        "wb_ac_sent" => g.c.ac_sent += 1,
        "wb_ac_done" => {
            g.c.ac_done += 1;
            if b == 1 {
                g.c.ac_done_shutdown += 1;
            }
        }
        "wb_shutdown_begin" => {
            g.forever = true;
            g.open = true;
        }
        _ => {}
    }
    drop(g);
    GATE.cv.notify_all();
}

/// called from the `thread_point` hook on pipeline threads
pub fn on_thread_point(site: &'static str) {
    if !site.starts_with("wb_") {
        return;
    }
    let mut g = GATE.m.lock().unwrap();
    while !g.open {
        g = GATE.cv.wait(g).unwrap();
    }
}

/// Start of an engine instance: counters zero; gate closed when `freeze`.
pub fn reset(freeze: bool) {
    let mut g = GATE.m.lock().unwrap();
    g.c = Counters::default();
    g.enabled = freeze;
    g.forever = !freeze;
    g.open = !freeze;
    drop(g);
    GATE.cv.notify_all();
}

/// Open the gate and block until the pipeline has nothing left to do, then
/// close it again.
pub fn drain() {
    let mut g = GATE.m.lock().unwrap();
    if g.forever {
        // free-running: just wait for quiescence
        while !quiescent(&g.c) {
            g = GATE.cv.wait(g).unwrap();
        }
        return;
    }
    g.open = true;
    g.c.drains += 1;
    GATE.cv.notify_all();
    while !quiescent(&g.c) {
        g = GATE.cv.wait(g).unwrap();
    }
    if !g.forever {
        g.open = false;
    }
}

pub fn open_forever() {
    let mut g = GATE.m.lock().unwrap();
    g.forever = true;
    g.open = true;
    drop(g);
    GATE.cv.notify_all();
}

pub fn counters() -> Counters { GATE.m.lock().unwrap().c }
