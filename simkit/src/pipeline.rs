//! Freeze / drain control of the real write-behind pipeline threads.
//!
//! The pipeline's serializer, commit and after-commit threads are real OS
//! threads.  Through the `wb_*` thread points they park at a gate right after
//! receiving a task; the simulation thread decides (from its seeded stream)
//! when to open the gate and then waits until the pipeline is quiescent
//! again.  Between two drains nothing reaches the simulated disk and no
//! after-commit notification is delivered, so the simulation thread's
//! execution is a function of the decisions only.

use std::sync::{Condvar, Mutex};

#[derive(Default, Debug, Clone, Copy)]
pub struct Counters {
    pub created: u64,
    pub submitted: u64,
    pub serialized: u64,
    pub commit_processed: u64,
    pub ac_sent: u64,
    pub ac_done: u64,
    pub ac_done_shutdown: u64,
    pub drains: u64,
}

struct GateState {
    open: bool,
    forever: bool,
    /// when false the gate is never closed (free-running pipeline)
    enabled: bool,
    c: Counters,
}

pub struct Gate {
    m: Mutex<GateState>,
    cv: Condvar,
}

pub static GATE: Gate = Gate {
    m: Mutex::new(GateState {
        open: true,
        forever: true,
        enabled: false,
        c: Counters {
            created: 0,
            submitted: 0,
            serialized: 0,
            commit_processed: 0,
            ac_sent: 0,
            ac_done: 0,
            ac_done_shutdown: 0,
            drains: 0,
        },
    }),
    cv: Condvar::new(),
};

fn quiescent(c: &Counters) -> bool {
    c.serialized == c.submitted && c.commit_processed == c.serialized && c.ac_done == c.ac_sent
}

/// called from the `event` hook on any thread
pub fn on_event(site: &'static str, _a: u64, b: u64) {
    if !site.starts_with("wb_") {
        return;
    }
    if site.ends_with("_got") {
        assign_worker_slot();
    }
    let mut g = GATE.m.lock().unwrap();
    match site {
        "wb_created" => g.c.created += 1,
        "wb_submit" => g.c.submitted += 1,
        "wb_serialized" => g.c.serialized += 1,
        "wb_commit_processed" => g.c.commit_processed += 1,
        "wb_ac_sent" => g.c.ac_sent += 1,
        "wb_ac_done" => {
            g.c.ac_done += 1;
            if b == 1 {
                g.c.ac_done_shutdown += 1;
            }
        }
        "wb_shutdown_begin" => {
            g.forever = true;
            g.open = true;
        }
        _ => {}
    }
    drop(g);
    GATE.cv.notify_all();
}

/// called from the `thread_point` hook on pipeline threads
pub fn on_thread_point(site: &'static str) {
    if !site.starts_with("wb_") {
        return;
    }
    let mut g = GATE.m.lock().unwrap();
    while !g.open {
        g = GATE.cv.wait(g).unwrap();
    }
}

/// Start of an engine instance: counters zero; gate closed when `freeze`.
pub fn reset(freeze: bool) {
    let mut g = GATE.m.lock().unwrap();
    g.c = Counters::default();
    g.enabled = freeze;
    g.forever = !freeze;
    g.open = !freeze;
    drop(g);
    GATE.cv.notify_all();
}

/// Open the gate and block until the pipeline has nothing left to do, then
/// close it again.
pub fn drain() {
    let mut g = GATE.m.lock().unwrap();
    if g.forever {
        // free-running: just wait for quiescence
        while !quiescent(&g.c) {
            g = GATE.cv.wait(g).unwrap();
        }
        return;
    }
    g.open = true;
    g.c.drains += 1;
    GATE.cv.notify_all();
    while !quiescent(&g.c) {
        g = GATE.cv.wait(g).unwrap();
    }
    if !g.forever {
        g.open = false;
    }
}

pub fn open_forever() {
    let mut g = GATE.m.lock().unwrap();
    g.forever = true;
    g.open = true;
    drop(g);
    GATE.cv.notify_all();
}

pub fn counters() -> Counters { GATE.m.lock().unwrap().c }

// ---------------------------------------------------------------------------
// Step mode: every pipeline step is an explicit action of the simulation.
// ---------------------------------------------------------------------------

#[derive(Clone, Copy, Debug, PartialEq, Eq, Hash, PartialOrd, Ord)]
pub enum Stage {
    Serialize,
    Commit,
    AfterCommit,
}

struct StepState {
    enabled: bool,
    drain: bool,
    n_ser: u64,
    parked: Vec<(Stage, u64)>,
    allowed: Vec<(Stage, u64)>,
    done: Vec<(Stage, u64)>,
    submitted: u64,
    serialized: u64,
    commit_got: u64,
    commit_processed: u64,
    ac_sent: u64,
    ac_done: u64,
    created: u64,
}

pub struct StepGate {
    m: Mutex<StepState>,
    cv: Condvar,
}

pub static STEP: StepGate = StepGate {
    m: Mutex::new(StepState {
        enabled: false,
        drain: false,
        n_ser: 1,
        parked: Vec::new(),
        allowed: Vec::new(),
        done: Vec::new(),
        submitted: 0,
        serialized: 0,
        commit_got: 0,
        commit_processed: 0,
        ac_sent: 0,
        ac_done: 0,
        created: 0,
    }),
    cv: Condvar::new(),
};

thread_local! {
    static HOLDING: std::cell::Cell<Option<(Stage, u64)>> = const { std::cell::Cell::new(None) };
}

/// Start of a write-behind instance under step control.
pub fn step_reset(n_ser: usize) {
    let mut g = STEP.m.lock().unwrap();
    g.enabled = true;
    g.drain = false;
    g.n_ser = n_ser as u64;
    g.parked.clear();
    g.allowed.clear();
    g.done.clear();
    g.submitted = 0;
    g.serialized = 0;
    g.commit_got = 0;
    g.commit_processed = 0;
    g.ac_sent = 0;
    g.ac_done = 0;
    g.created = 0;
}

pub fn step_disable() {
    let mut g = STEP.m.lock().unwrap();
    g.enabled = false;
    g.drain = true;
    drop(g);
    STEP.cv.notify_all();
}

/// pipeline worker threads get fixed stripe slots (their OS thread ids vary)
pub fn assign_worker_slot() {
    if qbice_storage::verif::thread_slot().is_some() {
        return;
    }
    let name = std::thread::current().name().unwrap_or("").to_string();
    let slot = if name == "bg_writer_commit" {
        Some(8)
    } else if name == "bg_writer_after_commit" {
        Some(9)
    } else {
        name.strip_prefix("bg_writer_ser_").and_then(|i| i.parse::<usize>().ok()).map(|i| 10 + i)
    };
    if let Some(s) = slot {
        qbice_storage::verif::set_thread_slot(s);
    }
}

pub fn step_event(site: &'static str, a: u64, _b: u64) {
    if !site.starts_with("wb_") {
        return;
    }
    if site.ends_with("_got") {
        assign_worker_slot();
    }
    let mut g = STEP.m.lock().unwrap();
    if !g.enabled && !g.drain {
        return;
    }
    match site {
        "wb_created" => g.created += 1,
        "wb_submit" => g.submitted += 1,
        "wb_ser_got" => HOLDING.with(|h| h.set(Some((Stage::Serialize, a)))),
        "wb_commit_got" => {
            g.commit_got += 1;
            HOLDING.with(|h| h.set(Some((Stage::Commit, a))));
        }
        "wb_ac_got" => HOLDING.with(|h| h.set(Some((Stage::AfterCommit, a)))),
        "wb_serialized" => {
            g.serialized += 1;
            g.done.push((Stage::Serialize, a));
        }
        "wb_commit_processed" => {
            g.commit_processed += 1;
            g.done.push((Stage::Commit, a));
        }
        "wb_ac_sent" => g.ac_sent += 1,
        "wb_ac_done" => {
            g.ac_done += 1;
            g.done.push((Stage::AfterCommit, a));
        }
        "wb_shutdown_begin" => g.drain = true,
        _ => {}
    }
    drop(g);
    STEP.cv.notify_all();
}

pub fn step_thread_point(site: &'static str) {
    if !site.starts_with("wb_") {
        return;
    }
    let Some(me) = HOLDING.with(std::cell::Cell::get) else { return };
    let mut g = STEP.m.lock().unwrap();
    if !g.enabled || g.drain {
        return;
    }
    g.parked.push(me);
    STEP.cv.notify_all();
    loop {
        if g.drain {
            g.parked.retain(|p| *p != me);
            return;
        }
        if let Some(pos) = g.allowed.iter().position(|p| *p == me) {
            g.allowed.remove(pos);
            g.parked.retain(|p| *p != me);
            return;
        }
        g = STEP.cv.wait(g).unwrap();
    }
}

fn settled(g: &StepState) -> bool {
    let parked = |st: Stage| g.parked.iter().filter(|p| p.0 == st).count() as u64;
    let ser_in_flight = g.submitted - g.serialized;
    let commit_in_flight = g.serialized - g.commit_processed;
    let ac_in_flight = g.ac_sent - g.ac_done;
    parked(Stage::Serialize) == ser_in_flight.min(g.n_ser)
        && parked(Stage::Commit) == commit_in_flight.min(1)
        && parked(Stage::AfterCommit) == ac_in_flight.min(1)
}

/// The steps the pipeline could take now (waits until every worker that is
/// going to receive a pending message has parked at its gate).
pub fn step_available() -> Vec<(Stage, u64)> {
    let mut g = STEP.m.lock().unwrap();
    while !settled(&g) {
        g = STEP.cv.wait(g).unwrap();
    }
    let mut v = g.parked.clone();
    v.sort();
    v
}

/// Let one parked worker perform its step and wait until it has finished.
pub fn step_run(stage: Stage, epoch: u64) {
    let mut g = STEP.m.lock().unwrap();
    assert!(g.parked.contains(&(stage, epoch)), "step_run: {stage:?} {epoch} is not parked");
    g.allowed.push((stage, epoch));
    STEP.cv.notify_all();
    loop {
        if let Some(pos) = g.done.iter().position(|p| *p == (stage, epoch)) {
            g.done.remove(pos);
            break;
        }
        g = STEP.cv.wait(g).unwrap();
    }
    // let the follow-up arrivals settle before anything else is decided
    while !settled(&g) {
        g = STEP.cv.wait(g).unwrap();
    }
}

pub struct StepCounters {
    pub created: u64,
    pub submitted: u64,
    pub serialized: u64,
    pub commit_processed: u64,
    pub ac_sent: u64,
    pub ac_done: u64,
}

pub fn step_counters() -> StepCounters {
    let g = STEP.m.lock().unwrap();
    StepCounters {
        created: g.created,
        submitted: g.submitted,
        serialized: g.serialized,
        commit_processed: g.commit_processed,
        ac_sent: g.ac_sent,
        ac_done: g.ac_done,
    }
}
