//! Reporting of process aborts: a panic that cannot unwind (e.g. in a
//! destructor during unwinding) or `abort()` inside the code under test takes
//! the whole worker down. The worker keeps the line to print for the run in
//! flight; a SIGABRT handler writes it to stdout before the process ends.

use std::sync::Mutex;

static LINE: Mutex<Option<Vec<u8>>> = Mutex::new(None);

extern "C" fn on_sigabrt(_sig: libc::c_int) {
    // best effort: the process is going down anyway
    if let Ok(g) = LINE.try_lock() {
        if let Some(line) = g.as_ref() {
            unsafe {
                libc::write(1, line.as_ptr().cast(), line.len());
            }
        }
    }
    unsafe {
        libc::_exit(0);
    }
}

pub fn install() {
    unsafe {
        libc::signal(libc::SIGABRT, on_sigabrt as usize);
    }
}

/// the line (without newline) to print if the process is aborted from now on
pub fn set_line(line: Option<String>) {
    *LINE.lock().unwrap() = line.map(|l| format!("\n{l}\n").into_bytes());
}
