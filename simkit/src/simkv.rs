//! SimKv: the simulated disk.  Implements the public `KvDatabase` trait, so
//! the real write-behind pipeline and caches run unchanged on top of it.
//!
//! * state: ordered maps with an unambiguous, component-wise key framing
//!   (the shipped backends' byte framing is C11's subject, not a trusted part
//!   of this stub);
//! * every physical commit is appended to a log; `Disk::prefix(j)` rebuilds
//!   the disk a crash after the j-th physical commit would leave behind;
//! * `should_write_more` (how many logical batches share a physical commit)
//!   is decided by the disk's seeded stream.

use std::{
    collections::{BTreeMap, BTreeSet},
    sync::Arc,
};

use parking_lot::Mutex;
use qbice_serialize::{Decoder, Encoder, Plugin, PostcardDecoder, PostcardEncoder};
use qbice_stable_type_id::Identifiable;
use qbice_storage::kv_database::{
    KeyOfSetColumn, KvDatabase, KvDatabaseFactory, SerializationBuffer, WideColumn,
    WideColumnValue, WriteBatch,
};

use crate::Rng;

#[derive(Clone, Debug, PartialEq, Eq, PartialOrd, Ord, serde::Serialize, serde::Deserialize)]
pub enum RawOp {
    Put { col: u128, disc: Vec<u8>, key: Vec<u8>, val: Vec<u8> },
    Del { col: u128, disc: Vec<u8>, key: Vec<u8> },
    InsMember { col: u128, key: Vec<u8>, elem: Vec<u8> },
    DelMember { col: u128, key: Vec<u8>, elem: Vec<u8> },
}

#[derive(Clone, Debug, Default)]
pub struct PhysCommit {
    /// ops of each logical batch, in the order they were consumed
    pub logical: Vec<Vec<RawOp>>,
}

#[derive(Clone, Default)]
pub struct DiskState {
    pub wide: BTreeMap<(u128, Vec<u8>, Vec<u8>), Vec<u8>>,
    pub sets: BTreeMap<(u128, Vec<u8>), BTreeSet<Vec<u8>>>,
}

impl DiskState {
    pub fn apply(&mut self, op: &RawOp) {
        match op {
            RawOp::Put { col, disc, key, val } => {
                self.wide.insert((*col, disc.clone(), key.clone()), val.clone());
            }
            RawOp::Del { col, disc, key } => {
                self.wide.remove(&(*col, disc.clone(), key.clone()));
            }
            RawOp::InsMember { col, key, elem } => {
                self.sets.entry((*col, key.clone())).or_default().insert(elem.clone());
            }
            RawOp::DelMember { col, key, elem } => {
                if let Some(s) = self.sets.get_mut(&(*col, key.clone())) {
                    s.remove(elem);
                    if s.is_empty() {
                        self.sets.remove(&(*col, key.clone()));
                    }
                }
            }
        }
    }

    pub fn digest(&self) -> u64 {
        let mut h = 0xcbf2_9ce4_8422_2325u64;
        for ((c, d, k), v) in &self.wide {
            h = crate::fnv_step(h, *c as u64);
            h = crate::fnv_step(h, crate::fnv(d));
            h = crate::fnv_step(h, crate::fnv(k));
            h = crate::fnv_step(h, crate::fnv(v));
        }
        for ((c, k), s) in &self.sets {
            h = crate::fnv_step(h, *c as u64 ^ 0x5555);
            h = crate::fnv_step(h, crate::fnv(k));
            for e in s {
                h = crate::fnv_step(h, crate::fnv(e));
            }
        }
        h
    }
}

pub struct DiskInner {
    pub state: DiskState,
    pub log: Vec<PhysCommit>,
    pub rng: Rng,
    pub group_max: u32,
    pub commits: u64,
    pub reads: u64,
    pub scans: u64,
}

/// The disk outlives database handles (and engines): reopen = a new `SimKv`
/// over the same `Disk`.
#[derive(Clone)]
pub struct Disk(pub Arc<Mutex<DiskInner>>);

impl Disk {
    pub fn new(seed: u64, group_max: u32) -> Self {
        Disk(Arc::new(Mutex::new(DiskInner {
            state: DiskState::default(),
            log: Vec::new(),
            rng: Rng::new(seed).split(crate::label("disk-grouping")),
            group_max: group_max.max(1),
            commits: 0,
            reads: 0,
            scans: 0,
        })))
    }

    /// the disk a crash right after the j-th physical commit leaves behind
    pub fn prefix(&self, j: usize, seed: u64) -> Disk {
        let me = self.0.lock();
        let d = Disk::new(seed, me.group_max);
        {
            let mut n = d.0.lock();
            for pc in &me.log[..j] {
                for l in &pc.logical {
                    for op in l {
                        n.state.apply(op);
                    }
                }
                n.log.push(pc.clone());
            }
        }
        d
    }

    /// a copy of the disk as it is now (clean shutdown image)
    pub fn snapshot(&self, seed: u64) -> Disk {
        let n = self.0.lock().log.len();
        self.prefix(n, seed)
    }

    pub fn log_len(&self) -> usize { self.0.lock().log.len() }
    pub fn digest(&self) -> u64 { self.0.lock().state.digest() }
}

#[derive(Clone)]
pub struct SimKv {
    pub disk: Disk,
    pub plugin: Arc<Plugin>,
}

impl std::fmt::Debug for SimKv {
    fn fmt(&self, f: &mut std::fmt::Formatter<'_>) -> std::fmt::Result {
        f.debug_struct("SimKv").finish_non_exhaustive()
    }
}

pub struct SimKvFactory(pub Disk);

impl KvDatabaseFactory for SimKvFactory {
    type KvDatabase = SimKv;
    type Error = std::convert::Infallible;
    fn open(self, serialization_plugin: Plugin) -> Result<SimKv, Self::Error> {
        Ok(SimKv { disk: self.0, plugin: Arc::new(serialization_plugin) })
    }
}

fn enc<T: qbice_serialize::Encode>(plugin: &Plugin, v: &T) -> Vec<u8> {
    let mut e = PostcardEncoder::new(Vec::new());
    e.encode(v, plugin).expect("encoding should not fail");
    e.into_inner()
}

fn dec<T: qbice_serialize::Decode>(plugin: &Plugin, b: &[u8]) -> T {
    let mut d = PostcardDecoder::new(std::io::Cursor::new(b));
    d.decode::<T>(plugin).expect("decoding should not fail")
}

pub struct SimSerBuf {
    plugin: Arc<Plugin>,
    pub ops: Vec<RawOp>,
}

fn col_of<T: Identifiable>() -> u128 { T::STABLE_TYPE_ID.as_u128() }

impl SerializationBuffer for SimSerBuf {
    fn put<W: WideColumn, C: WideColumnValue<W>>(&mut self, key: &W::Key, value: &C) {
        self.ops.push(RawOp::Put {
            col: col_of::<W>(),
            disc: enc(&self.plugin, &C::discriminant()),
            key: enc(&self.plugin, key),
            val: enc(&self.plugin, value),
        });
    }
    fn delete<W: WideColumn, C: WideColumnValue<W>>(&mut self, key: &W::Key) {
        self.ops.push(RawOp::Del {
            col: col_of::<W>(),
            disc: enc(&self.plugin, &C::discriminant()),
            key: enc(&self.plugin, key),
        });
    }
    fn insert_member<C: KeyOfSetColumn>(&mut self, key: &C::Key, value: &C::Element) {
        self.ops.push(RawOp::InsMember {
            col: col_of::<C>(),
            key: enc(&self.plugin, key),
            elem: enc(&self.plugin, value),
        });
    }
    fn delete_member<C: KeyOfSetColumn>(&mut self, key: &C::Key, value: &C::Element) {
        self.ops.push(RawOp::DelMember {
            col: col_of::<C>(),
            key: enc(&self.plugin, key),
            elem: enc(&self.plugin, value),
        });
    }
}

pub struct SimWriteBatch {
    disk: Disk,
    buf: SimSerBuf,
    logical: Vec<Vec<RawOp>>,
    target: u32,
}

impl WriteBatch for SimWriteBatch {
    type SerializationBuffer = SimSerBuf;

    fn put<W: WideColumn, C: WideColumnValue<W>>(&mut self, key: &W::Key, value: &C) {
        self.buf.put::<W, C>(key, value);
    }
    fn delete<W: WideColumn, C: WideColumnValue<W>>(&mut self, key: &W::Key) {
        self.buf.delete::<W, C>(key);
    }
    fn insert_member<C: KeyOfSetColumn>(&mut self, key: &C::Key, value: &C::Element) {
        self.buf.insert_member::<C>(key, value);
    }
    fn delete_member<C: KeyOfSetColumn>(&mut self, key: &C::Key, value: &C::Element) {
        self.buf.delete_member::<C>(key, value);
    }
    fn consume_serialization_buffer(&mut self, buffer: SimSerBuf) {
        self.logical.push(buffer.ops);
    }
    fn commit(mut self) {
        let direct = std::mem::take(&mut self.buf.ops);
        if !direct.is_empty() {
            self.logical.push(direct);
        }
        let mut d = self.disk.0.lock();
        for l in &self.logical {
            for op in l {
                d.state.apply(op);
            }
        }
        d.commits += 1;
        let logical = std::mem::take(&mut self.logical);
        d.log.push(PhysCommit { logical });
        drop(d);
        qbice_storage::verif::event("simkv_commit", 0, 0);
    }
    fn should_write_more(&self) -> bool { (self.logical.len() as u32) < self.target }
}

impl KvDatabase for SimKv {
    type WriteBatch = SimWriteBatch;
    type SerializationBuffer = SimSerBuf;
    type ScanMemberIterator<C: KeyOfSetColumn> = std::vec::IntoIter<C::Element>;

    fn get_wide_column<W: WideColumn, C: WideColumnValue<W>>(&self, key: &W::Key) -> Option<C> {
        let k = (col_of::<W>(), enc(&self.plugin, &C::discriminant()), enc(&self.plugin, key));
        let bytes = {
            let mut d = self.disk.0.lock();
            d.reads += 1;
            d.state.wide.get(&k).cloned()
        };
        bytes.map(|b| dec::<C>(&self.plugin, &b))
    }

    fn scan_members<C: KeyOfSetColumn>(&self, key: &C::Key) -> Self::ScanMemberIterator<C> {
        let k = (col_of::<C>(), enc(&self.plugin, key));
        let elems: Vec<Vec<u8>> = {
            let mut d = self.disk.0.lock();
            d.scans += 1;
            d.state.sets.get(&k).map(|s| s.iter().cloned().collect()).unwrap_or_default()
        };
        elems
            .iter()
            .map(|b| dec::<C::Element>(&self.plugin, b))
            .collect::<Vec<_>>()
            .into_iter()
    }

    fn write_batch(&self) -> SimWriteBatch {
        let target = {
            let mut d = self.disk.0.lock();
            let gm = u64::from(d.group_max);
            d.rng.range(1, gm) as u32
        };
        SimWriteBatch {
            disk: self.disk.clone(),
            buf: SimSerBuf { plugin: self.plugin.clone(), ops: Vec::new() },
            logical: Vec::new(),
            target,
        }
    }

    fn serialization_buffer(&self) -> SimSerBuf {
        SimSerBuf { plugin: self.plugin.clone(), ops: Vec::new() }
    }
}
