//! Process-wide panic recorder.  Installs a silent hook that stores every
//! panic (thread name, message, location) so that a harness can assert that
//! no unexpected panic happened anywhere - including background threads and
//! destructors.

use std::sync::{Mutex, Once};

#[derive(Clone, Debug)]
pub struct PanicRecord {
    pub thread: String,
    pub message: String,
    pub location: String,
    pub string_payload: bool,
}

static RECORDS: Mutex<Vec<PanicRecord>> = Mutex::new(Vec::new());
static INSTALL: Once = Once::new();

pub fn install() {
    INSTALL.call_once(|| {
        let verbose = std::env::var("VERIF_VERBOSE").is_ok();
        std::panic::set_hook(Box::new(move |info| {
            let (message, string_payload) =
                if let Some(s) = info.payload().downcast_ref::<&str>() {
                    ((*s).to_string(), true)
                } else if let Some(s) = info.payload().downcast_ref::<String>() {
                    (s.clone(), true)
                } else {
                    ("<non-string payload>".to_string(), false)
                };
            let location = info
                .location()
                .map(|l| format!("{}:{}", l.file(), l.line()))
                .unwrap_or_default();
            let thread = std::thread::current()
                .name()
                .unwrap_or("<unnamed>")
                .to_string();
            if verbose {
                eprintln!("[panic] thread={thread} at {location}: {message}");
            }
            if let Ok(mut r) = RECORDS.lock() {
                r.push(PanicRecord { thread, message, location, string_payload });
            }
        }));
    });
}

pub fn drain() -> Vec<PanicRecord> {
    RECORDS.lock().map(|mut r| std::mem::take(&mut *r)).unwrap_or_default()
}

pub fn count() -> usize { RECORDS.lock().map(|r| r.len()).unwrap_or(0) }
