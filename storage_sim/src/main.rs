fn main() {
    eprintln!("storage_sim: under construction");
    std::process::exit(2);
}
