//! storage_sim: storage-level structures under a token scheduler.
//!
//!   storage_sim batch  --prop C10 --seed 1 --worker 0 --workers 16 --budget-s 60 --tier quick
//!   storage_sim replay <file>
//!   storage_sim shrink <file> <out> [budget]

mod c09;
mod c10;
mod c15;
mod c16;
mod cbes;
mod common;
mod imkos;
mod locktab;

use std::{
    collections::{BTreeMap, HashSet},
    io::Write,
    time::Instant,
};

use serde::{Deserialize, Serialize};
use serde_json::Value;
use simkit::{label, mix};

use crate::common::Outcome;

#[derive(Clone, Debug, Serialize, Deserialize)]
pub struct ReplayFile {
    pub property: String,
    pub harness: String,
    pub seed: u64,
    pub scenario: Value,
    pub choices: Option<Vec<String>>,
    pub class: String,
    pub message: String,
    pub known: Option<String>,
}

fn arg(args: &[String], name: &str) -> Option<String> {
    args.iter().position(|a| a == name).and_then(|i| args.get(i + 1).cloned())
}

fn generate(prop: &str, seed: u64, thorough: bool) -> Value {
    match prop {
        "C09" => serde_json::to_value(c09::generate(seed, thorough)).unwrap(),
        "C10" => serde_json::to_value(c10::generate(seed, thorough)).unwrap(),
        "C15" => serde_json::to_value(c15::generate(seed, thorough)).unwrap(),
        "C16" => serde_json::to_value(c16::generate(seed, thorough)).unwrap(),
        "C02" => serde_json::to_value(cbes::generate(seed, thorough)).unwrap(),
        "C16b" => serde_json::to_value(locktab::generate(seed, thorough)).unwrap(),
        "C02i" => serde_json::to_value(imkos::generate(seed, thorough)).unwrap(),
        _ => panic!("unknown property {prop}"),
    }
}

fn run(prop: &str, sc: &Value, replay: Option<Vec<String>>) -> Outcome {
    match prop {
        "C09" => c09::run(&serde_json::from_value(sc.clone()).unwrap(), replay),
        "C10" => c10::run(&serde_json::from_value(sc.clone()).unwrap(), replay),
        "C15" => c15::run(&serde_json::from_value(sc.clone()).unwrap(), replay),
        "C16" => c16::run(&serde_json::from_value(sc.clone()).unwrap(), replay),
        "C02" => cbes::run(&serde_json::from_value(sc.clone()).unwrap(), replay),
        "C16b" => locktab::run(&serde_json::from_value(sc.clone()).unwrap(), replay),
        "C02i" => imkos::run(&serde_json::from_value(sc.clone()).unwrap(), replay),
        _ => panic!("unknown property {prop}"),
    }
}

fn candidates(prop: &str, sc: &Value) -> Vec<Value> {
    fn conv<T: Serialize>(v: Vec<T>) -> Vec<Value> {
        v.into_iter().map(|x| serde_json::to_value(x).unwrap()).collect()
    }
    match prop {
        "C09" => conv(c09::shrink_candidates(&serde_json::from_value(sc.clone()).unwrap())),
        "C10" => conv(c10::shrink_candidates(&serde_json::from_value(sc.clone()).unwrap())),
        "C15" => conv(c15::shrink_candidates(&serde_json::from_value(sc.clone()).unwrap())),
        "C16" => conv(c16::shrink_candidates(&serde_json::from_value(sc.clone()).unwrap())),
        "C02" => conv(cbes::shrink_candidates(&serde_json::from_value(sc.clone()).unwrap())),
        "C16b" => conv(locktab::shrink_candidates(&serde_json::from_value(sc.clone()).unwrap())),
        "C02i" => conv(imkos::shrink_candidates(&serde_json::from_value(sc.clone()).unwrap())),
        _ => vec![],
    }
}

static CURRENT_RUN: std::sync::Mutex<Option<(Instant, String)>> = std::sync::Mutex::new(None);

fn start_watchdog() {
    let limit = simkit::env_u64("VERIF_STUCK_S", 20);
    std::thread::spawn(move || {
        loop {
            std::thread::sleep(std::time::Duration::from_millis(500));
            let stuck = {
                let g = CURRENT_RUN.lock().unwrap();
                g.as_ref().and_then(|(t, j)| (t.elapsed().as_secs() >= limit).then(|| j.clone()))
            };
            if let Some(j) = stuck {
                println!("{j}");
                std::process::exit(0);
            }
        }
    });
}

fn batch(args: &[String]) {
    start_watchdog();
    simkit::abort::install();
    let prop = arg(args, "--prop").expect("--prop");
    let seed: u64 = arg(args, "--seed").and_then(|s| s.parse().ok()).unwrap_or(1);
    let worker: u64 = arg(args, "--worker").and_then(|s| s.parse().ok()).unwrap_or(0);
    let workers: u64 = arg(args, "--workers").and_then(|s| s.parse().ok()).unwrap_or(1);
    let budget: f64 = arg(args, "--budget-s").and_then(|s| s.parse().ok()).unwrap_or(10.0);
    let max_runs: u64 = arg(args, "--max-runs").and_then(|s| s.parse().ok()).unwrap_or(u64::MAX);
    let thorough = arg(args, "--tier").as_deref() == Some("thorough");
    let emit_traces = args.iter().any(|a| a == "--emit-traces");
    let base = mix(seed, label(&format!("storage_sim/{prop}")));
    let start = Instant::now();
    let stdout = std::io::stdout();
    let mut runs = 0u64;
    let mut shapes: HashSet<u64> = HashSet::new();
    let mut traces: HashSet<u64> = HashSet::new();
    let mut failures = 0u64;
    let mut known = 0u64;
    let mut totals: BTreeMap<String, u64> = BTreeMap::new();
    let mut probes: BTreeMap<String, u64> = BTreeMap::new();
    let mut faults: BTreeMap<String, u64> = BTreeMap::new();
    let mut samples: Vec<Value> = Vec::new();
    let mut trace_list: Vec<(u64, u64)> = Vec::new();
    let mut last_emit = Instant::now();
    macro_rules! emit_summary {
        () => {{
            let mut o = stdout.lock();
            writeln!(
                o,
                "{}",
                serde_json::json!({
                    "type": "summary", "prop": prop, "worker": worker, "runs": runs,
                    "failures": failures, "known": known,
                    "nontrivial_shapes": shapes.iter().collect::<Vec<_>>(),
                    "traces": traces.len(), "totals": totals, "probes": probes,
                    "faults": faults, "samples": samples, "trace_list": trace_list,
                    "wall_s": start.elapsed().as_secs_f64(),
                })
            )
            .unwrap();
        }};
    }
    let mut i = worker;
    while runs < max_runs && start.elapsed().as_secs_f64() < budget {
        let run_seed = mix(base, i);
        let sc = generate(&prop, run_seed, thorough);
        {
            let rf = ReplayFile {
                property: prop.clone(),
                harness: "storage_sim".into(),
                seed: run_seed,
                scenario: sc.clone(),
                choices: None,
                class: "stuck".into(),
                message: "a simulated thread made no progress (blocked or spinning inside the code under test); wall-clock backstop".into(),
                known: None,
            };
            *CURRENT_RUN.lock().unwrap() =
                Some((Instant::now(), serde_json::json!({"type": "failure", "i": i, "replay": rf}).to_string()));
            let mut rf = rf;
            rf.class = "abort".into();
            rf.message = "the process was aborted during this run (a panic that cannot unwind, or abort() inside the code under test)".into();
            simkit::abort::set_line(Some(serde_json::json!({"type": "failure", "i": i, "replay": rf}).to_string()));
        }
        let out = run(&prop, &sc, None);
        *CURRENT_RUN.lock().unwrap() = None;
        simkit::abort::set_line(None);
        runs += 1;
        let sh = simkit::fnv(&serde_json::to_vec(&sc).unwrap());
        if out.nontrivial {
            shapes.insert(sh);
        }
        traces.insert(mix(sh, out.trace_hash));
        if emit_traces {
            let oh = simkit::fnv(format!("{:?}{:?}", out.failure.as_ref().map(|f| &f.0), out.stats).as_bytes());
            trace_list.push((i, mix(out.trace_hash, oh)));
        }
        for (k, v) in &out.stats {
            *totals.entry(k.clone()).or_insert(0) += v;
        }
        for (k, v) in &out.probes {
            *probes.entry(k.clone()).or_insert(0) += v;
        }
        for (k, v) in &out.faults {
            *faults.entry(k.clone()).or_insert(0) += v;
        }
        if samples.len() < 2 && out.nontrivial {
            samples.push(serde_json::json!({"run_seed": run_seed, "scenario": sc}));
        }
        if let Some((class, msg, k)) = &out.failure {
            failures += 1;
            if k.is_some() {
                known += 1;
            }
            if failures <= 20 || k.is_none() {
                let rf = ReplayFile {
                    property: prop.clone(),
                    harness: "storage_sim".into(),
                    seed: run_seed,
                    scenario: sc.clone(),
                    choices: Some(out.choices.clone()),
                    class: class.clone(),
                    message: msg.clone(),
                    known: k.clone(),
                };
                let mut o = stdout.lock();
                writeln!(o, "{}", serde_json::json!({"type": "failure", "i": i, "replay": rf})).unwrap();
            }
        }
        if last_emit.elapsed().as_secs() >= 5 {
            emit_summary!();
            last_emit = Instant::now();
        }
        i += workers;
    }
    emit_summary!();
}

fn replay_cmd(args: &[String]) -> i32 {
    let path = args[0].clone();
    let rf: ReplayFile = serde_json::from_str(&std::fs::read_to_string(&path).expect("read replay")).expect("parse");
    {
        let limit = simkit::env_u64("VERIF_STUCK_S", 20);
        let expected = rf.class.clone();
        let path = path.clone();
        std::thread::spawn(move || {
            std::thread::sleep(std::time::Duration::from_secs(limit));
            let reproduced = expected == "stuck";
            println!(
                "{}",
                serde_json::json!({"type": "replay", "file": path, "expected_class": expected, "class": "stuck",
                    "message": format!("no progress for {limit} s of wall-clock time"), "known": null, "reproduced": reproduced})
            );
            std::process::exit(if reproduced { 0 } else { 3 });
        });
    }
    simkit::abort::install();
    simkit::abort::set_line(Some(
        serde_json::json!({"type": "replay", "file": path, "expected_class": rf.class, "class": "abort",
            "message": "the process was aborted during the replay", "known": null, "reproduced": rf.class == "abort"})
        .to_string(),
    ));
    // the schedule is a function of the scenario's seed; the recorded choices
    // are replayed when present
    let out = run(&rf.property, &rf.scenario, rf.choices.clone());
    simkit::abort::set_line(None);
    let (class, msg, known) = match &out.failure {
        Some(f) => f.clone(),
        None => ("none".into(), String::new(), None),
    };
    let reproduced = class == rf.class;
    println!(
        "{}",
        serde_json::json!({"type": "replay", "file": path, "expected_class": rf.class, "class": class,
            "message": msg, "known": known, "reproduced": reproduced})
    );
    if reproduced { 0 } else { 3 }
}

fn shrink_cmd(args: &[String]) -> i32 {
    let rf: ReplayFile = serde_json::from_str(&std::fs::read_to_string(&args[0]).expect("read")).expect("parse");
    let budget: usize = args.get(2).and_then(|s| s.parse().ok()).unwrap_or(1500);
    let mut best = rf.clone();
    // candidates run with the seeded schedule (a recorded choice list does
    // not survive the removal of operations)
    let fails = |sc: &Value| -> Option<(String, Option<String>, Vec<String>)> {
        let out = run(&rf.property, sc, None);
        let (c, m, k) = out.failure?;
        (c == rf.class && k.is_some() == rf.known.is_some()).then_some((m, k, out.choices))
    };
    let mut runs = 0usize;
    if rf.class != "stuck" {
        if let Some((m, k, ch)) = fails(&best.scenario) {
            best.message = m;
            best.known = k;
            best.choices = Some(ch);
            let mut progress = true;
            while progress && runs < budget {
                progress = false;
                for cand in candidates(&rf.property, &best.scenario) {
                    if runs >= budget {
                        break;
                    }
                    runs += 1;
                    if let Some((m, k, ch)) = fails(&cand) {
                        best.scenario = cand;
                        best.message = m;
                        best.known = k;
                        best.choices = Some(ch);
                        progress = true;
                        break;
                    }
                }
            }
        }
    }
    std::fs::write(&args[1], serde_json::to_string_pretty(&best).unwrap()).expect("write");
    0
}

fn main() {
    simkit::panics::install();
    common::install_hooks();
    let args: Vec<String> = std::env::args().skip(1).collect();
    let code = match args.first().map(String::as_str) {
        Some("batch") => {
            batch(&args[1..]);
            0
        }
        Some("replay") => replay_cmd(&args[1..]),
        Some("shrink") => shrink_cmd(&args[1..]),
        _ => {
            eprintln!("usage: storage_sim batch|replay|shrink ...");
            2
        }
    };
    std::process::exit(code);
}
