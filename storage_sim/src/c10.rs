//! C10: write-behind applies every batch exactly once, in creation order, by
//! shutdown.

use std::{
    collections::{BTreeMap, BTreeSet, HashMap},
    sync::Arc,
};

use parking_lot::Mutex;
use qbice_storage::{
    dynamic_map::DynamicMap as _,
    key_of_set_map::KeyOfSetMap as _,
    kv_database::{KvDatabase, SerializationBuffer},
    single_map::SingleMap as _,
    storage_engine::StorageEngine,
    write_manager::WriteManager,
};
use serde::{Deserialize, Serialize};
use simkit::{
    Rng, pipeline,
    simkv::{Disk, RawOp},
    token,
};

use crate::common::{
    DmA, DmCol, LAST_CREATED, Mark, MarkCol, Outcome, PipelineExtras, SetC, SetCol, SmCol, SmVal,
    drive, storage,
};

#[derive(Clone, Debug, PartialEq, Eq, Serialize, Deserialize)]
pub enum W {
    Sm(u32, u64),
    SmDel(u32),
    SetIns(u32, u64),
    SetDel(u32, u64),
    DmA(u32, u64),
    DmADel(u32),
}

#[derive(Clone, Debug, PartialEq, Eq, Serialize, Deserialize)]
pub enum TOp {
    Create(u32),
    Write(u32, W),
    Submit(u32),
    /// a batch that is created and later submitted without any write in it
    /// (no marker either); added after seeded change C10-3
    CreateEmpty(u32),
}

#[derive(Clone, Debug, Serialize, Deserialize)]
pub struct Scenario {
    pub seed: u64,
    pub n_ser: usize,
    pub group_max: u32,
    pub cache_cap: u64,
    pub stay: (u64, u64),
    pub threads: Vec<Vec<TOp>>,
}

pub fn generate(seed: u64, thorough: bool) -> Scenario {
    let mut r = Rng::new(seed).split(simkit::label("c10-workload"));
    let n_threads = r.range(1, 4) as usize;
    let keys = r.range(2, 6) as u32;
    let mut threads = Vec::new();
    let mut val = 1u64;
    for _ in 0..n_threads {
        let n_batches = r.range(1, if thorough { 10 } else { 5 }) as u32;
        let mut ops = Vec::new();
        let mut open: Vec<u32> = Vec::new();
        let mut next = 0u32;
        while next < n_batches || !open.is_empty() {
            let can_create = next < n_batches && open.len() < 3;
            match r.below(10) {
                0..=2 if can_create => {
                    if r.chance(1, 6) {
                        ops.push(TOp::CreateEmpty(next));
                    } else {
                        ops.push(TOp::Create(next));
                    }
                    open.push(next);
                    next += 1;
                }
                3..=7 if !open.is_empty() => {
                    let b = *r.pick(&open);
                    let k = r.below(u64::from(keys)) as u32;
                    val += 1;
                    let w = match r.below(8) {
                        0 | 1 | 2 => W::Sm(k, val),
                        3 => W::SmDel(k),
                        4 | 5 => W::SetIns(k, r.below(4)),
                        6 => W::SetDel(k, r.below(4)),
                        _ => {
                            if r.chance(2, 3) {
                                W::DmA(k, val)
                            } else {
                                W::DmADel(k)
                            }
                        }
                    };
                    ops.push(TOp::Write(b, w));
                }
                _ if !open.is_empty() => {
                    // submission order differs from creation order
                    let i = r.usize(open.len());
                    ops.push(TOp::Submit(open.remove(i)));
                }
                _ => {
                    if can_create {
                        ops.push(TOp::Create(next));
                        open.push(next);
                        next += 1;
                    }
                }
            }
        }
        threads.push(ops);
    }
    // straggler shape (added after seeded change C10-7): the oldest batch of
    // a thread stays open while 33-48 younger ones are created, filled and
    // submitted, so the hold-back heap of the commit thread grows far beyond
    // the handful of entries the other shapes reach
    if r.chance(1, 10) {
        let n = r.range(33, 48) as u32;
        let mut ops = vec![TOp::Create(0)];
        val += 1;
        ops.push(TOp::Write(0, W::Sm(0, val)));
        for b in 1..=n {
            ops.push(TOp::Create(b));
            val += 1;
            ops.push(TOp::Write(b, W::Sm(r.below(u64::from(keys)) as u32, val)));
            ops.push(TOp::Submit(b));
        }
        ops.push(TOp::Submit(0));
        threads[0] = ops;
    }
    Scenario {
        seed,
        n_ser: r.range(1, 4) as usize,
        group_max: r.range(1, 5) as u32,
        cache_cap: *r.pick(&[1, 2, 8, 64]),
        stay: (r.range(0, 3), 4),
        threads,
    }
}

#[derive(Default)]
struct Shared {
    /// epoch -> writes in issue order
    batches: BTreeMap<u64, Vec<W>>,
    submit_order: Vec<u64>,
    /// epochs of batches without any write (they carry no marker)
    empty: BTreeSet<u64>,
}

pub fn run(sc: &Scenario, replay: Option<Vec<String>>) -> Outcome {
    let mut out = Outcome::default();
    crate::common::set_sites(&[]);
    let disk = Disk::new(sc.seed, sc.group_max);
    pipeline::step_reset(sc.n_ser);
    let (st, kv) = storage(&disk, sc.cache_cap, sc.n_ser);
    let wm = Arc::new(st.new_write_manager());
    let sm = Arc::new(st.new_single_map::<SmCol, SmVal>());
    let dm = Arc::new(st.new_dynamic_map::<DmCol>());
    let set = Arc::new(st.new_key_of_set_map::<SetCol, SetC>());
    let mark = Arc::new(st.new_single_map::<MarkCol, Mark>());
    let shared = Arc::new(Mutex::new(Shared::default()));

    let mut bodies: Vec<Box<dyn FnOnce() + Send>> = Vec::new();
    for ops in &sc.threads {
        let ops = ops.clone();
        let (wm, sm, dm, set, mark, shared) =
            (wm.clone(), sm.clone(), dm.clone(), set.clone(), mark.clone(), shared.clone());
        bodies.push(Box::new(move || {
            let mut open = HashMap::new();
            for op in ops {
                match op {
                    TOp::Create(b) => {
                        LAST_CREATED.with(|c| c.set(None));
                        let mut wb = wm.new_write_batch();
                        let e = LAST_CREATED.with(std::cell::Cell::get).expect("wb_created event");
                        drive(mark.insert(e, Mark(e), &mut wb));
                        shared.lock().batches.insert(e, Vec::new());
                        open.insert(b, (e, wb));
                    }
                    TOp::CreateEmpty(b) => {
                        LAST_CREATED.with(|c| c.set(None));
                        let wb = wm.new_write_batch();
                        let e = LAST_CREATED.with(std::cell::Cell::get).expect("wb_created event");
                        shared.lock().empty.insert(e);
                        open.insert(b, (e, wb));
                    }
                    TOp::Write(b, w) => {
                        let Some((e, wb)) = open.get_mut(&b) else { continue };
                        if shared.lock().empty.contains(e) {
                            continue;
                        }
                        match &w {
                            W::Sm(k, v) => drive(sm.insert(*k, SmVal(*v), wb)),
                            W::SmDel(k) => drive(sm.remove(k, wb)),
                            W::SetIns(k, x) => drive(set.insert(*k, *x, wb)),
                            W::SetDel(k, x) => drive(set.remove(k, x, wb)),
                            W::DmA(k, v) => drive(dm.insert(*k, DmA(*v), wb)),
                            W::DmADel(k) => drive(dm.remove::<DmA>(k, wb)),
                        }
                        shared.lock().batches.get_mut(e).unwrap().push(w);
                    }
                    TOp::Submit(b) => {
                        if let Some((e, wb)) = open.remove(&b) {
                            shared.lock().submit_order.push(e);
                            wm.submit_write_batch(wb);
                        }
                    }
                }
                token::point("h_op");
            }
            // nothing may stay unsubmitted in this check
            let mut rest: Vec<_> = open.into_iter().collect();
            rest.sort_by_key(|x| x.0);
            for (_, (e, wb)) in rest {
                shared.lock().submit_order.push(e);
                wm.submit_write_batch(wb);
            }
        }));
    }
    let rep = token::run(
        token::Config {
            seed: sc.seed,
            stay: sc.stay,
            replay,
            extras: Some(Arc::new(PipelineExtras)),
            on_point: None,
        },
        bodies,
    );
    out.absorb(&rep);
    let before = pipeline::step_counters();
    let log_before = disk.log_len();
    // shutdown: dropping the write manager must make everything durable
    drop(sm);
    drop(dm);
    drop(set);
    drop(mark);
    let wm = Arc::try_unwrap(wm).ok().expect("write manager still shared");
    drop(wm);
    let after = pipeline::step_counters();
    pipeline::step_disable();

    let sh = shared.lock();
    let n = sh.batches.len() as u64;
    out.stats.insert("batches".into(), n);
    out.stats.insert("phys_commits".into(), disk.log_len() as u64);
    out.stats.insert("commits_during_shutdown".into(), (disk.log_len() - log_before) as u64);
    out.stats.insert("in_flight_at_shutdown".into(), before.submitted - before.commit_processed);
    let inverted = sh.submit_order.windows(2).any(|w| w[0] > w[1]);

    // (1)(2) every batch exactly once, in creation order; content of each
    let plugin = qbice_serialize::Plugin::default();
    let mark_col = <MarkCol as qbice_stable_type_id::Identifiable>::STABLE_TYPE_ID.as_u128();
    let mut seen_epochs = Vec::new();
    let mut multi = 0u64;
    {
        let d = disk.0.lock();
        for pc in &d.log {
            if pc.logical.len() > 1 {
                multi += 1;
            }
            for l in &pc.logical {
                if l.is_empty() {
                    // an empty batch: nothing identifies it
                    continue;
                }
                let marks: Vec<u64> = l
                    .iter()
                    .filter_map(|op| match op {
                        RawOp::Put { col, val, .. } if *col == mark_col => {
                            let mut dec = qbice_serialize::PostcardDecoder::new(std::io::Cursor::new(val.clone()));
                            qbice_serialize::Decoder::decode::<Mark>(&mut dec, &plugin).ok().map(|m| m.0)
                        }
                        _ => None,
                    })
                    .collect();
                if marks.len() != 1 {
                    out.fail(
                        "batch_identity",
                        format!("a logical batch in the store's log carries {} batch markers: {marks:?}", marks.len()),
                    );
                    continue;
                }
                let e = marks[0];
                seen_epochs.push(e);
                // expected content of batch e (last write per key wins inside one batch)
                let mut buf = kv.serialization_buffer();
                buf.put::<MarkCol, Mark>(&e, &Mark(e));
                let mut sm_last: BTreeMap<u32, Option<u64>> = BTreeMap::new();
                let mut dm_last: BTreeMap<u32, Option<u64>> = BTreeMap::new();
                let mut set_last: BTreeMap<(u32, u64), bool> = BTreeMap::new();
                for w in sh.batches.get(&e).map(Vec::as_slice).unwrap_or(&[]) {
                    match w {
                        W::Sm(k, v) => {
                            sm_last.insert(*k, Some(*v));
                        }
                        W::SmDel(k) => {
                            sm_last.insert(*k, None);
                        }
                        W::DmA(k, v) => {
                            dm_last.insert(*k, Some(*v));
                        }
                        W::DmADel(k) => {
                            dm_last.insert(*k, None);
                        }
                        W::SetIns(k, x) => {
                            set_last.insert((*k, *x), true);
                        }
                        W::SetDel(k, x) => {
                            set_last.insert((*k, *x), false);
                        }
                    }
                }
                for (k, v) in &sm_last {
                    match v {
                        Some(v) => buf.put::<SmCol, SmVal>(k, &SmVal(*v)),
                        None => buf.delete::<SmCol, SmVal>(k),
                    }
                }
                for (k, v) in &dm_last {
                    match v {
                        Some(v) => buf.put::<DmCol, DmA>(k, &DmA(*v)),
                        None => buf.delete::<DmCol, DmA>(k),
                    }
                }
                for ((k, x), ins) in &set_last {
                    if *ins {
                        buf.insert_member::<SetCol>(k, x);
                    } else {
                        buf.delete_member::<SetCol>(k, x);
                    }
                }
                let mut want = buf.ops.clone();
                want.sort();
                let mut got = l.clone();
                got.sort();
                if want != got {
                    out.fail(
                        "batch_content",
                        format!("batch {e} reached the store with {} operations, {} were issued into it", got.len(), want.len()),
                    );
                }
            }
        }
    }
    let want_epochs: Vec<u64> = sh.batches.keys().copied().collect();
    if seen_epochs != want_epochs {
        let dup: BTreeSet<u64> = seen_epochs
            .iter()
            .copied()
            .filter(|e| seen_epochs.iter().filter(|x| *x == e).count() > 1)
            .collect();
        let missing: Vec<u64> = want_epochs.iter().copied().filter(|e| !seen_epochs.contains(e)).collect();
        out.fail(
            "batch_order",
            format!(
                "the store received the batches as {seen_epochs:?}; created (with a write in them) were {want_epochs:?} of {n} (missing {missing:?}, duplicated {dup:?}); submission order was {:?}",
                sh.submit_order
            ),
        );
    }
    // (3)(4) final content equals applying the batches in creation order
    let mut m_sm: BTreeMap<u32, u64> = BTreeMap::new();
    let mut m_dm: BTreeMap<u32, u64> = BTreeMap::new();
    let mut m_set: BTreeMap<u32, BTreeSet<u64>> = BTreeMap::new();
    let mut keys: BTreeSet<u32> = BTreeSet::new();
    for ws in sh.batches.values() {
        for w in ws {
            match w {
                W::Sm(k, v) => {
                    m_sm.insert(*k, *v);
                    keys.insert(*k);
                }
                W::SmDel(k) => {
                    m_sm.remove(k);
                    keys.insert(*k);
                }
                W::DmA(k, v) => {
                    m_dm.insert(*k, *v);
                    keys.insert(*k);
                }
                W::DmADel(k) => {
                    m_dm.remove(k);
                    keys.insert(*k);
                }
                W::SetIns(k, x) => {
                    m_set.entry(*k).or_default().insert(*x);
                    keys.insert(*k);
                }
                W::SetDel(k, x) => {
                    m_set.entry(*k).or_default().remove(x);
                    keys.insert(*k);
                }
            }
        }
    }
    for k in &keys {
        let got = kv.get_wide_column::<SmCol, SmVal>(k).map(|v| v.0);
        if got != m_sm.get(k).copied() {
            out.fail("final_content", format!("single map key {k}: store has {got:?}, applying the batches in creation order gives {:?}", m_sm.get(k)));
        }
        let got = kv.get_wide_column::<DmCol, DmA>(k).map(|v| v.0);
        if got != m_dm.get(k).copied() {
            out.fail("final_content", format!("dynamic map key {k}: store has {got:?}, model {:?}", m_dm.get(k)));
        }
        let got: BTreeSet<u64> = kv.scan_members::<SetCol>(k).collect();
        let want = m_set.get(k).cloned().unwrap_or_default();
        if got != want {
            out.fail("final_content", format!("set key {k}: store has {got:?}, model {want:?}"));
        }
    }
    // (5) bookkeeping of the pipeline
    if after.created != after.submitted || after.commit_processed != after.submitted {
        out.fail(
            "pipeline_gap",
            format!("{} batches created, {} submitted, {} passed the commit stage", after.created, after.submitted, after.commit_processed),
        );
    }
    if after.ac_done != after.ac_sent {
        out.fail("after_commit_lost", format!("{} after-commit notifications sent, {} handled", after.ac_sent, after.ac_done));
    }
    out.stats.insert("multi_batch_commits".into(), multi);
    out.stats.insert("submission_inverted".into(), u64::from(inverted));
    out.nontrivial = n >= 2 && (inverted || multi > 0 || rep.extra_steps > 0);
    out
}

pub fn shrink_candidates(sc: &Scenario) -> Vec<Scenario> {
    let mut v = Vec::new();
    for t in 0..sc.threads.len() {
        if sc.threads.len() > 1 {
            let mut c = sc.clone();
            c.threads.remove(t);
            v.push(c);
        }
        for i in (0..sc.threads[t].len()).rev() {
            if matches!(sc.threads[t][i], TOp::Write(..)) {
                let mut c = sc.clone();
                c.threads[t].remove(i);
                v.push(c);
            }
        }
    }
    if sc.n_ser > 1 {
        let mut c = sc.clone();
        c.n_ser = 1;
        v.push(c);
    }
    if sc.group_max > 1 {
        let mut c = sc.clone();
        c.group_max = 1;
        v.push(c);
    }
    v
}
