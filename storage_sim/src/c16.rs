//! C16 (a): the admission cache never evicts pinned entries, keeps entries
//! readable with their latest value until evicted or removed, and stays
//! bounded.

use std::{
    collections::{BTreeMap, HashMap},
    sync::{
        Arc,
        atomic::{AtomicBool, AtomicU64, Ordering},
    },
};

use parking_lot::Mutex;
use qbice_storage::tiny_lfu::{Entry, LifecycleListener, MaintenanceMode, TinyLFU, UnpinStrategy};
use serde::{Deserialize, Serialize};
use simkit::{Rng, token};

use crate::common::{Outcome, WriteEv, acceptable};

#[derive(Debug)]
pub struct Cell {
    val: AtomicU64,
    pinned: AtomicBool,
}

#[derive(Debug, Default)]
pub struct PinListener;

static PIN_PROBES: AtomicU64 = AtomicU64::new(0);

impl LifecycleListener<u32, Arc<Cell>> for PinListener {
    fn is_pinned(&self, _key: &u32, value: &Arc<Cell>) -> bool {
        let p = value.pinned.load(Ordering::SeqCst);
        if p {
            // an eviction attempt hit a pinned key
            PIN_PROBES.fetch_add(1, Ordering::Relaxed);
        }
        p
    }
}

#[derive(Clone, Debug, Serialize, Deserialize)]
pub enum Op {
    Get(u32),
    /// insert or update: (key, value, pinned-on-insert)
    Put(u32, u64, bool),
    Remove(u32),
    Pin(u32),
    Unpin(u32),
    Probe,
    /// let the policy process every buffered message, then check the tight
    /// bound (single-threaded runs)
    Settle,
}

#[derive(Clone, Debug, Serialize, Deserialize)]
pub struct Scenario {
    pub seed: u64,
    pub capacity: usize,
    pub universe: u32,
    pub notify: bool,
    pub stay: (u64, u64),
    pub threads: Vec<Vec<Op>>,
}

pub fn generate(seed: u64, thorough: bool) -> Scenario {
    let mut r = Rng::new(seed).split(simkit::label("c16-workload"));
    let capacity = if r.chance(1, 2) { r.range(1, 8) } else { r.range(1, if thorough { 300 } else { 40 }) } as usize;
    let universe = (capacity as u64 * r.range(2, 12)).clamp(4, 2000) as u32;
    let n_threads = if r.chance(1, 4) { r.range(2, 4) as usize } else { 1 };
    let hot = r.range(1, u64::from(universe).min(8)) as u32;
    let mut val = 0u64;
    let threads = (0..n_threads)
        .map(|t| {
            let n = r.range(40, if thorough { 5000 } else { 600 });
            let mine = |r: &mut Rng| -> u32 {
                // single writer per key
                let k = if r.chance(1, 3) { r.below(u64::from(hot)) as u32 } else { r.below(u64::from(universe)) as u32 };
                k - (k % n_threads as u32) + t as u32
            };
            (0..n)
                .map(|_| match r.below(20) {
                    0..=6 => Op::Get(r.below(u64::from(universe) + n_threads as u64) as u32),
                    7..=12 => {
                        val += 1;
                        Op::Put(mine(&mut r), val, r.chance(1, 4))
                    }
                    13 | 14 => Op::Remove(mine(&mut r)),
                    15 | 16 => Op::Pin(mine(&mut r)),
                    17 | 18 => Op::Unpin(mine(&mut r)),
                    _ => {
                        if r.chance(1, 6) {
                            Op::Settle
                        } else {
                            Op::Probe
                        }
                    }
                })
                .collect()
        })
        .collect();
    Scenario { seed, capacity, universe: universe + n_threads as u32, notify: r.chance(1, 2), stay: (r.range(0, 3), 4), threads }
}

#[derive(Default)]
struct KeyState {
    /// latest value if inserted and not removed
    present: Option<u64>,
    cell: Option<Arc<Cell>>,
    /// tick since which the entry has been protected without interruption
    /// (pinned since its last insert); None while it is evictable
    protected_since: Option<u64>,
    writes: Vec<WriteEv>,
}

pub fn run(sc: &Scenario, replay: Option<Vec<String>>) -> Outcome {
    let mut out = Outcome::default();
    crate::common::set_sites(&["lfu_"]);
    // the final phases run on this thread: its read-buffer stripe must not
    // depend on the OS thread id
    qbice_storage::verif::set_thread_slot(0);
    PIN_PROBES.store(0, Ordering::SeqCst);
    let single = sc.threads.len() == 1;
    let lfu: Arc<TinyLFU<u32, Arc<Cell>, PinListener>> = Arc::new(TinyLFU::new(
        sc.capacity,
        if sc.notify { UnpinStrategy::Notify } else { UnpinStrategy::Poll },
        MaintenanceMode::Piggyback,
    ));
    let state: Arc<Mutex<BTreeMap<u32, KeyState>>> = Arc::new(Mutex::new(BTreeMap::new()));
    let viol: Arc<Mutex<Option<(String, String)>>> = Arc::new(Mutex::new(None));
    let clock = Arc::new(AtomicU64::new(1));
    let stats: Arc<Mutex<HashMap<&'static str, u64>>> = Arc::new(Mutex::new(HashMap::new()));
    let capacity = sc.capacity;
    let universe = sc.universe;
    let notify = sc.notify;

    let mut bodies: Vec<Box<dyn FnOnce() + Send>> = Vec::new();
    for (t, ops) in sc.threads.iter().enumerate() {
        let ops = ops.clone();
        let (lfu, state, viol, clock, stats) = (lfu.clone(), state.clone(), viol.clone(), clock.clone(), stats.clone());
        bodies.push(Box::new(move || {
            let fail = |class: &str, msg: String| {
                let mut v = viol.lock();
                if v.is_none() {
                    *v = Some((class.to_string(), msg));
                }
            };
            let bump = |k: &'static str| *stats.lock().entry(k).or_insert(0) += 1;
            let tick = || clock.fetch_add(1, Ordering::SeqCst);
            // judge one read of key k
            let judge = |k: u32, got: Option<u64>, inv: u64, ret: u64, ctx: &str| {
                let st = state.lock();
                let ks = st.get(&k);
                let writes: &[WriteEv] = ks.map(|s| s.writes.as_slice()).unwrap_or(&[]);
                let acc = acceptable(writes, &None, inv, ret);
                let gs = got.map(|v| v.to_string());
                if acc.contains(&gs) {
                    return;
                }
                // a miss is legal for an entry that was evictable at some
                // moment since its last write
                if got.is_none() && ks.is_none_or(|s| s.protected_since.is_none_or(|p| p > inv)) {
                    return;
                }
                drop(st);
                fail(
                    if got.is_none() { "pinned_entry_lost" } else { "stale_or_ghost_value" },
                    format!("{ctx}: thread {t} read key {k} = {got:?}; allowed by the writes: {acc:?} (a miss only for entries that were un-pinned since their last write)"),
                );
            };
            for op in ops {
                let inv = tick();
                match op {
                    Op::Get(k) => {
                        let got = lfu.get(&k).map(|c| c.val.load(Ordering::SeqCst));
                        let ret = tick();
                        judge(k, got, inv, ret, "get");
                        bump(if got.is_some() { "hits" } else { "misses" });
                    }
                    Op::Put(k, v, pin) => {
                        // the write is visible to the oracle from its invocation on
                        state.lock().entry(k).or_default().writes.push(WriteEv { inv, ret: u64::MAX, val: Some(v.to_string()) });
                        let cell = lfu.entry(k, |e| match e {
                            Entry::Vacant(vac) => {
                                let c = Arc::new(Cell { val: AtomicU64::new(v), pinned: AtomicBool::new(pin) });
                                vac.insert(c.clone());
                                (c, true)
                            }
                            Entry::Occupied(occ) => {
                                occ.get().val.store(v, Ordering::SeqCst);
                                (occ.get().clone(), false)
                            }
                        });
                        let ret = tick();
                        let mut st = state.lock();
                        let ks = st.entry(k).or_default();
                        if cell.1 {
                            // fresh cell
                            ks.protected_since = pin.then_some(ret);
                        } else if !cell.0.pinned.load(Ordering::SeqCst) {
                            ks.protected_since = None;
                        }
                        ks.cell = Some(cell.0);
                        ks.present = Some(v);
                        ks.writes.last_mut().unwrap().ret = ret;
                        bump("puts");
                    }
                    Op::Remove(k) => {
                        state.lock().entry(k).or_default().writes.push(WriteEv { inv, ret: u64::MAX, val: None });
                        lfu.entry(k, |e| {
                            if let Entry::Occupied(occ) = e {
                                drop(occ.remove());
                            }
                        });
                        let ret = tick();
                        let mut st = state.lock();
                        let ks = st.entry(k).or_default();
                        ks.present = None;
                        ks.cell = None;
                        ks.protected_since = None;
                        ks.writes.last_mut().unwrap().ret = ret;
                        bump("removes");
                    }
                    Op::Pin(k) => {
                        // pinning only protects an entry that is resident
                        // now: do it under the entry guard
                        let pinned = lfu.entry(k, |e| match e {
                            Entry::Occupied(occ) => {
                                occ.get().pinned.store(true, Ordering::SeqCst);
                                true
                            }
                            Entry::Vacant(_) => false,
                        });
                        let mut st = state.lock();
                        if let Some(ks) = st.get_mut(&k) {
                            if pinned {
                                // resident at this moment: protected again
                                if ks.protected_since.is_none() {
                                    ks.protected_since = Some(tick());
                                }
                                bump("pins");
                            } else {
                                // it had been evicted (legal only if evictable)
                                if ks.protected_since.is_some() && ks.present.is_some() {
                                    drop(st);
                                    fail("pinned_entry_lost", format!("pin({k}): the entry is gone although it was pinned since its last write"));
                                } else {
                                    ks.present = None;
                                    ks.cell = None;
                                    let ret = tick();
                                    ks.writes.push(WriteEv { inv, ret, val: None });
                                }
                            }
                        }
                    }
                    Op::Unpin(k) => {
                        let cell = state.lock().get(&k).and_then(|s| s.cell.clone());
                        if let Some(c) = cell {
                            if c.pinned.swap(false, Ordering::SeqCst) {
                                state.lock().get_mut(&k).unwrap().protected_since = None;
                                if notify {
                                    lfu.unpin(k);
                                }
                                bump("unpins");
                            }
                        }
                    }
                    Op::Settle => {
                        if !single {
                            continue;
                        }
                        // Every buffered message is processed once the write
                        // buffer exceeds its batch size; un-pin notifications
                        // for a key that is not tracked are no-ops for the
                        // policy. Poll mode trims the pinned region up to the
                        // first entry that is still pinned, once per pass.
                        let pinned_now = state
                            .lock()
                            .values()
                            .filter(|s| s.present.is_some() && s.cell.as_ref().is_some_and(|c| c.pinned.load(Ordering::SeqCst)))
                            .count() as u64;
                        let rounds = if notify { 1 } else { pinned_now + 1 };
                        for _ in 0..rounds {
                            for _ in 0..34 {
                                lfu.unpin(u32::MAX);
                            }
                        }
                        let mut resident = 0u64;
                        for k in 0..universe {
                            if lfu.entry(k, |e| matches!(e, Entry::Occupied(_))) {
                                resident += 1;
                            }
                        }
                        bump("settles");
                        // window + main <= capacity + 1 (rounding of the
                        // region sizes); the pinned region holds only entries
                        // that are pinned now; +1
                        let bound = capacity as u64 + pinned_now + 2;
                        if resident > bound {
                            fail(
                                "bound_exceeded",
                                format!("after the policy processed every message: {resident} resident entries with capacity {capacity} and {pinned_now} pinned (allowed {bound})"),
                            );
                        }
                    }
                    Op::Probe => {
                        if !single {
                            continue;
                        }
                        let mut resident = 0u64;
                        let mut pinned_now = 0u64;
                        for k in 0..universe {
                            let i = tick();
                            let got = lfu.get(&k);
                            let r = tick();
                            if let Some(c) = &got {
                                resident += 1;
                                if c.pinned.load(Ordering::SeqCst) {
                                    pinned_now += 1;
                                }
                            }
                            judge(k, got.map(|c| c.val.load(Ordering::SeqCst)), i, r, "probe");
                        }
                        bump("probes");
                        // window rounding (+2), one maintenance batch of
                        // unprocessed writes (+33), +1
                        let bound = capacity as u64 + pinned_now + 36;
                        if resident > bound {
                            fail(
                                "bound_exceeded",
                                format!("{resident} resident entries with capacity {capacity} and {pinned_now} pinned (allowed {bound})"),
                            );
                        }
                        let mut s = stats.lock();
                        let m = s.entry("max_resident_over_capacity").or_insert(0);
                        *m = (*m).max(resident.saturating_sub(capacity as u64));
                    }
                }
                token::point("h_op");
            }
        }));
    }
    let rep = token::run(token::Config { seed: sc.seed, stay: sc.stay, replay, extras: None, on_point: None }, bodies);
    out.absorb(&rep);
    // final: every entry that stayed pinned since its last write is resident
    let fin = std::panic::catch_unwind(std::panic::AssertUnwindSafe(|| {
        let st = state.lock();
        for (k, ks) in st.iter() {
            if let (Some(v), true) = (ks.present, ks.protected_since.is_some()) {
                let got = lfu.get(k).map(|c| c.val.load(Ordering::SeqCst));
                if got != Some(v) && viol.lock().is_none() {
                    *viol.lock() = Some((
                        "pinned_entry_lost".into(),
                        format!("at the end key {k} reads {got:?}; it was pinned since its last write of {v}"),
                    ));
                }
            }
        }
    }));
    if fin.is_err() {
        out.fail("panic", "panic inside the cache during the final reads".into());
    }
    // final (2): nothing is leaked. Un-pin everything (with notification), let
    // the policy process every message, fill the cache with fresh un-pinned
    // keys and settle again: window + main are full, the pinned region is
    // empty, so at most capacity + 1 entries may be resident.
    let fin2 = std::panic::catch_unwind(std::panic::AssertUnwindSafe(|| {
        let settle = || {
            for _ in 0..34 {
                lfu.unpin(u32::MAX);
            }
        };
        {
            let st = state.lock();
            for (k, ks) in st.iter() {
                if let Some(c) = &ks.cell {
                    if c.pinned.swap(false, Ordering::SeqCst) && sc.notify {
                        lfu.unpin(*k);
                    }
                }
            }
        }
        settle();
        settle();
        let fresh = sc.universe + 10;
        let n_fresh = sc.capacity as u32 + 40;
        for k in fresh..fresh + n_fresh {
            lfu.entry(k, |e| {
                if let Entry::Vacant(vac) = e {
                    vac.insert(Arc::new(Cell { val: AtomicU64::new(0), pinned: AtomicBool::new(false) }));
                }
            });
        }
        settle();
        settle();
        let mut resident = 0u64;
        for k in 0..fresh + n_fresh {
            if lfu.entry(k, |e| matches!(e, Entry::Occupied(_))) {
                resident += 1;
            }
        }
        let bound = sc.capacity as u64 + 1;
        if resident > bound && viol.lock().is_none() {
            *viol.lock() = Some((
                "bound_exceeded".into(),
                format!(
                    "at the end, with nothing pinned, every message processed and {n_fresh} fresh keys inserted: {resident} resident entries with capacity {} (allowed {bound}); entries the policy lost track of are never evicted",
                    sc.capacity
                ),
            ));
        }
    }));
    if fin2.is_err() {
        out.fail("panic", "panic inside the cache during the final fill".into());
    }
    if let Some((c, m)) = viol.lock().clone() {
        out.fail(&c, m);
    }
    for (k, v) in stats.lock().iter() {
        out.stats.insert((*k).to_string(), *v);
    }
    let pp = PIN_PROBES.load(Ordering::SeqCst);
    out.stats.insert("eviction_attempts_on_pinned".into(), pp);
    out.nontrivial = pp > 0 || out.stats.get("misses").copied().unwrap_or(0) > 0 && out.stats.get("pins").copied().unwrap_or(0) > 0;
    out
}

pub fn shrink_candidates(sc: &Scenario) -> Vec<Scenario> {
    let mut v = Vec::new();
    for t in 0..sc.threads.len() {
        if sc.threads.len() > 1 {
            let mut c = sc.clone();
            c.threads.remove(t);
            v.push(c);
        }
        let n = sc.threads[t].len();
        let mut chunk = n / 2;
        while chunk >= 1 {
            let mut a = 0;
            while a < n {
                let mut c = sc.clone();
                let b = (a + chunk).min(n);
                c.threads[t].drain(a..b);
                v.push(c);
                a += chunk;
            }
            if chunk == 1 {
                break;
            }
            chunk /= 2;
        }
    }
    v
}
