//! C15: interning is canonical under concurrency and survives encoding.

use std::{
    collections::{BTreeMap, HashMap},
    sync::Arc,
};

use parking_lot::Mutex;
use qbice::{Decode, Encode, Identifiable, StableHash};
use qbice_serialize::{Decoder, Encoder, Plugin, PostcardDecoder, PostcardEncoder};
use qbice_stable_hash::{SeededStableHasherBuilder, Sip128Hasher};
use qbice_storage::intern::{Interned, Interner};
use serde::{Deserialize, Serialize};
use simkit::{Rng, token};

use crate::common::Outcome;

#[derive(Debug, Clone, PartialEq, Eq, Hash, StableHash, Identifiable, Encode, Decode)]
pub struct SV(pub u8);
#[derive(Debug, Clone, PartialEq, Eq, Hash, StableHash, Identifiable, Encode, Decode)]
pub struct SW(pub u8);

#[derive(Debug, Clone, Encode, Decode)]
struct Nested {
    a: Interned<SV>,
    list: Vec<Interned<SV>>,
    s: Interned<str>,
    pair: (Interned<str>, Interned<SV>),
    w: Option<Interned<SW>>,
}

#[derive(Clone, Copy, Debug, PartialEq, Eq, Hash, PartialOrd, Ord, Serialize, Deserialize)]
pub enum Ty {
    V,
    W,
    S,
}

#[derive(Clone, Debug, Serialize, Deserialize)]
pub enum Op {
    Intern(Ty, u8),
    Clone(u8),
    Drop(u8),
    GetHash(Ty, u8),
    Vacuum,
    /// encode a structure built from live handles, decode with the same
    /// (true) or a fresh (false) interner
    Codec(bool, u8, u8),
}

#[derive(Clone, Debug, Serialize, Deserialize)]
pub struct Scenario {
    pub seed: u64,
    pub stay: (u64, u64),
    pub shards: usize,
    pub threads: Vec<Vec<Op>>,
    /// the per-type tables are not created up front: the first use of a type
    /// is raced by the threads
    #[serde(default)]
    pub cold: bool,
}

pub fn generate(seed: u64, thorough: bool) -> Scenario {
    let mut r = Rng::new(seed).split(simkit::label("c15-workload"));
    let n_threads = r.range(2, if thorough { 8 } else { 4 }) as usize;
    let dom = r.range(1, 4) as u8;
    let threads = (0..n_threads)
        .map(|_| {
            (0..r.range(4, if thorough { 40 } else { 16 }))
                .map(|_| {
                    let ty = *r.pick(&[Ty::V, Ty::V, Ty::S, Ty::W]);
                    match r.below(14) {
                        0..=4 => Op::Intern(ty, r.below(u64::from(dom)) as u8),
                        5 => Op::Clone(r.below(8) as u8),
                        6..=8 => Op::Drop(r.below(8) as u8),
                        9 | 10 => Op::GetHash(ty, r.below(u64::from(dom)) as u8),
                        11 => Op::Vacuum,
                        _ => Op::Codec(r.chance(1, 2), r.below(u64::from(dom)) as u8, r.below(u64::from(dom)) as u8),
                    }
                })
                .collect()
        })
        .collect();
    let stay = (r.range(0, 2), 4);
    let shards = *r.pick(&[2, 2, 4, 16]);
    let cold = r.chance(1, 2);
    Scenario { seed, stay, shards, threads, cold }
}

enum Handle {
    V(Interned<SV>),
    W(Interned<SW>),
    S(Interned<str>),
}

impl Handle {
    fn ptr(&self) -> usize {
        match self {
            Handle::V(h) => std::ptr::from_ref::<SV>(&**h) as usize,
            Handle::W(h) => std::ptr::from_ref::<SW>(&**h) as usize,
            Handle::S(h) => std::ptr::from_ref::<str>(&**h).cast::<u8>() as usize,
        }
    }
    fn key(&self) -> (Ty, u8) {
        match self {
            Handle::V(h) => (Ty::V, h.0),
            Handle::W(h) => (Ty::W, h.0),
            Handle::S(h) => (Ty::S, h[1..].parse().unwrap()),
        }
    }
    fn dup(&self) -> Handle {
        match self {
            Handle::V(h) => Handle::V(h.clone()),
            Handle::W(h) => Handle::W(h.clone()),
            Handle::S(h) => Handle::S(h.clone()),
        }
    }
}

fn sval(v: u8) -> String { format!("s{v}") }

#[derive(Default)]
struct Registry {
    /// live handles: (type, value) -> pointer -> count
    live: BTreeMap<(Ty, u8), HashMap<usize, u64>>,
    /// how often the live count of a value dropped to zero
    zero_hits: BTreeMap<(Ty, u8), u64>,
    violation: Option<String>,
    canonical_checks: u64,
    last_handle_drops: u64,
}

impl Registry {
    fn add(&mut self, key: (Ty, u8), ptr: usize, how: &str) {
        let m = self.live.entry(key).or_default();
        *m.entry(ptr).or_insert(0) += 1;
        self.canonical_checks += 1;
        if m.len() > 1 && self.violation.is_none() {
            self.violation = Some(format!(
                "{how}: live handles of {key:?} refer to {} different allocations {:?}",
                m.len(),
                m.keys().collect::<Vec<_>>()
            ));
        }
    }
    fn remove(&mut self, key: (Ty, u8), ptr: usize) {
        let m = self.live.entry(key).or_default();
        if let Some(c) = m.get_mut(&ptr) {
            *c -= 1;
            if *c == 0 {
                m.remove(&ptr);
            }
        }
        if m.is_empty() {
            *self.zero_hits.entry(key).or_insert(0) += 1;
            self.last_handle_drops += 1;
        }
    }
    fn live_count(&self, key: (Ty, u8)) -> usize { self.live.get(&key).map_or(0, |m| m.values().sum::<u64>() as usize) }
}

fn hasher() -> SeededStableHasherBuilder<Sip128Hasher> { SeededStableHasherBuilder::<Sip128Hasher>::new(7) }

pub fn run(sc: &Scenario, replay: Option<Vec<String>>) -> Outcome {
    let mut out = Outcome::default();
    crate::common::set_sites(&["intern_", "shard_lock_"]);
    let interner = Interner::new(sc.shards, hasher());
    // create the per-type shards up front: a thread parked inside the
    // probe/insert window holds the outer shard map for reading
    // (the waiting side spins through thread points, so leaving this out
    // - `cold` - lets the threads race on the first use of a type)
    if !sc.cold {
        drop(interner.intern(SV(200)));
        drop(interner.intern(SW(200)));
        drop(interner.intern_unsized::<str, _>(String::from("warm")));
    }
    let reg = Arc::new(Mutex::new(Registry::default()));
    let mut bodies: Vec<Box<dyn FnOnce() + Send>> = Vec::new();
    for ops in &sc.threads {
        let ops = ops.clone();
        let interner = interner.clone();
        let reg = reg.clone();
        bodies.push(Box::new(move || {
            let mut slots: Vec<Handle> = Vec::new();
            for op in ops {
                match op {
                    Op::Intern(ty, v) => {
                        let h = match ty {
                            Ty::V => Handle::V(interner.intern(SV(v))),
                            Ty::W => Handle::W(interner.intern(SW(v))),
                            Ty::S => Handle::S(interner.intern_unsized::<str, _>(sval(v))),
                        };
                        if h.key() != (ty, v) {
                            reg.lock().violation.get_or_insert(format!("intern({ty:?},{v}) returned a handle with content {:?}", h.key()));
                        }
                        reg.lock().add((ty, v), h.ptr(), "intern");
                        slots.push(h);
                    }
                    Op::Clone(i) => {
                        if !slots.is_empty() {
                            let h = slots[i as usize % slots.len()].dup();
                            reg.lock().add(h.key(), h.ptr(), "clone");
                            slots.push(h);
                        }
                    }
                    Op::Drop(i) => {
                        if !slots.is_empty() {
                            let h = slots.remove(i as usize % slots.len());
                            // un-register first: from here on the handle may be gone
                            reg.lock().remove(h.key(), h.ptr());
                            drop(h);
                        }
                    }
                    Op::GetHash(ty, v) => {
                        let (live_before, zeros_before) = {
                            let r = reg.lock();
                            (r.live_count((ty, v)), r.zero_hits.get(&(ty, v)).copied().unwrap_or(0))
                        };
                        let got = match ty {
                            Ty::V => interner.get_from_hash::<SV>(interner.hash_128(&SV(v))).map(Handle::V),
                            Ty::W => interner.get_from_hash::<SW>(interner.hash_128(&SW(v))).map(Handle::W),
                            Ty::S => interner.get_from_hash::<str>(interner.hash_128::<str>(&sval(v))).map(Handle::S),
                        };
                        let mut r = reg.lock();
                        match got {
                            Some(h) => {
                                if h.key() != (ty, v) {
                                    r.violation.get_or_insert(format!("get_from_hash({ty:?},{v}) returned content {:?}", h.key()));
                                }
                                r.add((ty, v), h.ptr(), "get_from_hash");
                                drop(r);
                                slots.push(h);
                            }
                            None => {
                                let zeros_after = r.zero_hits.get(&(ty, v)).copied().unwrap_or(0);
                                if live_before > 0 && r.live_count((ty, v)) > 0 && zeros_before == zeros_after {
                                    r.violation.get_or_insert(format!(
                                        "get_from_hash({ty:?},{v}) returned None although a handle of that value was live during the whole call"
                                    ));
                                }
                            }
                        }
                    }
                    Op::Vacuum => interner.vacuum(),
                    Op::Codec(same, a, b) => {
                        let va = interner.intern(SV(a));
                        let vb = interner.intern(SV(b));
                        let sa = interner.intern_unsized::<str, _>(sval(a));
                        {
                            let mut r = reg.lock();
                            r.add((Ty::V, a), std::ptr::from_ref::<SV>(&*va) as usize, "intern");
                            r.add((Ty::V, b), std::ptr::from_ref::<SV>(&*vb) as usize, "intern");
                            r.add((Ty::S, a), std::ptr::from_ref::<str>(&*sa).cast::<u8>() as usize, "intern");
                        }
                        let w = interner.intern(SW(a));
                        reg.lock().add((Ty::W, a), std::ptr::from_ref::<SW>(&*w) as usize, "intern");
                        let n = Nested {
                            a: va.clone(),
                            list: vec![va.clone(), vb.clone(), va.clone(), vb.clone()],
                            s: sa.clone(),
                            pair: (sa.clone(), vb.clone()),
                            w: Some(w.clone()),
                        };
                        let mut plugin = Plugin::default();
                        plugin.insert(interner.clone());
                        let mut enc = PostcardEncoder::new(Vec::new());
                        enc.encode(&n, &plugin).expect("encode");
                        let bytes = enc.into_inner();
                        token::point("h_between_encode_and_decode");
                        let dec_interner = if same { interner.clone() } else { Interner::new(2, hasher()) };
                        let mut plugin2 = Plugin::default();
                        plugin2.insert(dec_interner);
                        let mut dec = PostcardDecoder::new(std::io::Cursor::new(bytes));
                        let m: Nested = dec.decode(&plugin2).expect("decode");
                        let p = |h: &Interned<SV>| std::ptr::from_ref::<SV>(&**h) as usize;
                        let ps = |h: &Interned<str>| std::ptr::from_ref::<str>(&**h).cast::<u8>() as usize;
                        let mut r = reg.lock();
                        let values_ok = m.a.0 == a
                            && m.list.iter().map(|x| x.0).collect::<Vec<_>>() == vec![a, b, a, b]
                            && &*m.s == sval(a).as_str()
                            && &*m.pair.0 == sval(a).as_str()
                            && m.pair.1.0 == b
                            && m.w.as_ref().map(|x| x.0) == Some(a);
                        if !values_ok {
                            r.violation.get_or_insert(format!("decode(encode(x)) changed the values: {m:?}"));
                        }
                        let sharing_ok = p(&m.a) == p(&m.list[0])
                            && p(&m.list[0]) == p(&m.list[2])
                            && p(&m.list[1]) == p(&m.list[3])
                            && p(&m.list[1]) == p(&m.pair.1)
                            && ps(&m.s) == ps(&m.pair.0);
                        if !sharing_ok {
                            r.violation.get_or_insert("duplicates inside a decoded structure do not share one allocation".to_string());
                        }
                        if same && (p(&m.a) != p(&va) || p(&m.pair.1) != p(&vb) || ps(&m.s) != ps(&sa)) {
                            r.violation.get_or_insert("decoding with the same interner did not return the live canonical handles".to_string());
                        }
                        r.canonical_checks += 3;
                        r.remove((Ty::V, a), p(&va));
                        r.remove((Ty::V, b), p(&vb));
                        r.remove((Ty::S, a), ps(&sa));
                        r.remove((Ty::W, a), std::ptr::from_ref::<SW>(&*w) as usize);
                        drop(r);
                        drop((m, n, va, vb, sa, w));
                    }
                }
                token::point("h_op");
            }
            let mut r = reg.lock();
            for h in slots.drain(..) {
                r.remove(h.key(), h.ptr());
                drop(h);
            }
        }));
    }
    let rep = token::run(
        token::Config { seed: sc.seed, stay: sc.stay, replay, extras: None, on_point: None },
        bodies,
    );
    out.absorb(&rep);
    let r = reg.lock();
    if let Some(v) = &r.violation {
        out.fail("not_canonical", v.clone());
    }
    out.stats.insert("canonical_checks".into(), r.canonical_checks);
    out.stats.insert("last_handle_drops".into(), r.last_handle_drops);
    let window = out.probes.get("intern_between_probe_and_insert").copied().unwrap_or(0);
    out.stats.insert("probe_insert_windows".into(), window);
    out.nontrivial = window > 0 && rep.switches > 0 && r.canonical_checks > 1;
    out
}

pub fn shrink_candidates(sc: &Scenario) -> Vec<Scenario> {
    let mut v = Vec::new();
    for t in 0..sc.threads.len() {
        if sc.threads.len() > 1 {
            let mut c = sc.clone();
            c.threads.remove(t);
            v.push(c);
        }
        for i in (0..sc.threads[t].len()).rev() {
            let mut c = sc.clone();
            c.threads[t].remove(i);
            v.push(c);
        }
    }
    v
}
