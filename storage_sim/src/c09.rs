//! C09: cached maps always return the latest write (read-your-writes), for
//! any placement of the background commits / un-pin notifications, any cache
//! capacity, across the 1024-element spill threshold, and with readers
//! racing a writer.

use std::{
    collections::{BTreeMap, BTreeSet, HashMap},
    sync::{
        Arc,
        atomic::{AtomicU64, Ordering},
    },
};

use parking_lot::Mutex;
use qbice_storage::{
    dynamic_map::DynamicMap as _,
    key_of_set_map::KeyOfSetMap as _,
    kv_database::{KvDatabase, WriteBatch as _},
    single_map::SingleMap as _,
    storage_engine::StorageEngine,
    write_manager::WriteManager,
};
use serde::{Deserialize, Serialize};
use simkit::{Rng, pipeline, simkv::Disk, token};

use crate::common::{
    DmA, DmB, DmCol, Outcome, PipelineExtras, SetC, SetCol, SmCol, SmVal, WriteEv, acceptable, drive,
    storage,
};

#[derive(Clone, Debug, PartialEq, Eq, Serialize, Deserialize)]
pub enum Op {
    NewBatch(u32),
    Submit(u32),
    SmIns(u32, u32, u64),
    SmDel(u32, u32),
    DmAIns(u32, u32, u64),
    DmADel(u32, u32),
    DmBIns(u32, u32, String),
    DmBDel(u32, u32),
    SetIns(u32, u32, u64),
    SetDel(u32, u32, u64),
    GetSm(u32),
    GetDmA(u32),
    GetDmB(u32),
    GetSet(u32),
}

#[derive(Clone, Debug, Serialize, Deserialize)]
pub struct Scenario {
    pub seed: u64,
    pub cache_cap: u64,
    pub n_ser: usize,
    pub group_max: u32,
    pub stay: (u64, u64),
    /// set keys pre-populated in the store with this many members (1000..)
    pub big_sets: Vec<(u32, u32)>,
    /// single-map keys present in the store before the run
    pub pre_sm: Vec<(u32, u64)>,
    pub threads: Vec<Vec<Op>>,
}

const BULK_BASE: u64 = 1000;

pub fn generate(seed: u64, thorough: bool) -> Scenario {
    let mut r = Rng::new(seed).split(simkit::label("c09-workload"));
    let racing = r.chance(1, 3);
    let n_threads = if racing { r.range(2, 3) as usize } else { 1 };
    let n_keys = r.range(2, if thorough { 16 } else { 8 }) as u32;
    let big = r.chance(1, 4);
    let big_sets: Vec<(u32, u32)> =
        if big { vec![(0, r.range(1019, 1027) as u32)] } else { vec![] };
    let pre_sm: Vec<(u32, u64)> = (0..n_keys).filter(|_| r.chance(1, 3)).map(|k| (k, 7_000 + u64::from(k))).collect();
    let mut threads = Vec::new();
    let mut val = 1u64;
    for t in 0..n_threads {
        // single writer per key: thread t writes keys k with k % n_threads == t
        let my_keys: Vec<u32> = (0..n_keys).filter(|k| (*k as usize) % n_threads == t).collect();
        let n_ops = r.range(20, if thorough { 300 } else { 120 });
        let mut ops = Vec::new();
        let mut open: Vec<u32> = Vec::new();
        let mut next_batch = 0u32;
        // last batch (creation index) used per register: writes to one key
        // never go to an older batch than an earlier write of that key
        let mut last_used: HashMap<(u8, u32), u32> = HashMap::new();
        for _ in 0..n_ops {
            let roll = r.below(20);
            if open.is_empty() || (roll == 0 && open.len() < 2) {
                ops.push(Op::NewBatch(next_batch));
                open.push(next_batch);
                next_batch += 1;
                continue;
            }
            if roll == 1 {
                let i = r.usize(open.len());
                ops.push(Op::Submit(open.remove(i)));
                continue;
            }
            if roll < 10 && !my_keys.is_empty() {
                let k = *r.pick(&my_keys);
                let kind = r.below(10);
                let map: u8 = match kind {
                    0..=3 => 0,
                    4 | 5 => 1,
                    6 => 2,
                    _ => 3,
                };
                let min_b = last_used.get(&(map, k)).copied().unwrap_or(0);
                let cands: Vec<u32> = open.iter().copied().filter(|b| *b >= min_b).collect();
                let Some(b) = cands.get(r.usize(cands.len().max(1))).copied() else { continue };
                last_used.insert((map, k), b);
                val += 1;
                ops.push(match kind {
                    0..=2 => Op::SmIns(b, k, val),
                    3 => Op::SmDel(b, k),
                    4 => Op::DmAIns(b, k, val),
                    5 => Op::DmADel(b, k),
                    6 => {
                        if r.chance(2, 3) {
                            Op::DmBIns(b, k, format!("s{val}"))
                        } else {
                            Op::DmBDel(b, k)
                        }
                    }
                    _ => {
                        let bulk = big_sets.iter().find(|(bk, _)| *bk == k);
                        let x = match bulk {
                            Some((_, n)) if r.chance(1, 2) => BULK_BASE + r.below(u64::from(*n) + 6),
                            _ => r.below(6),
                        };
                        if r.chance(3, 5) { Op::SetIns(b, k, x) } else { Op::SetDel(b, k, x) }
                    }
                });
                continue;
            }
            let k = r.below(u64::from(n_keys)) as u32;
            ops.push(match r.below(6) {
                0 | 1 => Op::GetSm(k),
                2 => Op::GetDmA(k),
                3 => Op::GetDmB(k),
                _ => Op::GetSet(k),
            });
        }
        for b in open {
            ops.push(Op::Submit(b));
        }
        for k in 0..n_keys {
            ops.push(Op::GetSm(k));
            ops.push(Op::GetDmA(k));
            ops.push(Op::GetDmB(k));
            ops.push(Op::GetSet(k));
        }
        threads.push(ops);
    }
    Scenario {
        seed,
        cache_cap: *r.pick(&[1, 1, 2, 3, 4, 8, 16]),
        n_ser: r.range(1, 2) as usize,
        group_max: r.range(1, 4) as u32,
        stay: (r.range(1, 3), 4),
        big_sets,
        pre_sm,
        threads,
    }
}

/// register identity: (map, key, element)
type Reg = (u8, u32, u64);

#[derive(Clone, Debug)]
struct ReadEv {
    inv: u64,
    ret: u64,
    thread: usize,
    val: Option<String>,
}

#[derive(Default)]
struct History {
    writes: BTreeMap<Reg, Vec<WriteEv>>,
    reads: Vec<(Reg, ReadEv)>,
    /// set reads: (key, inv, ret, thread, members)
    set_reads: Vec<(u32, u64, u64, usize, BTreeSet<u64>)>,
}

pub fn run(sc: &Scenario, replay: Option<Vec<String>>) -> Outcome {
    let mut out = Outcome::default();
    // the windows of the cache fill / write paths; TinyLFU internals are
    // C16's subject (and a point inside them may sit under an entry lock)
    crate::common::set_sites(&["wcc_", "sm_", "dm_", "kos_", "sf_"]);
    let disk = Disk::new(sc.seed, sc.group_max);
    pipeline::step_reset(sc.n_ser);
    let (st, kv) = storage(&disk, sc.cache_cap, sc.n_ser);
    // pre-populate the store directly
    let mut initial: BTreeMap<Reg, Option<String>> = BTreeMap::new();
    {
        let mut wb = kv.write_batch();
        for (k, n) in &sc.big_sets {
            for i in 0..*n {
                let x = BULK_BASE + u64::from(i);
                wb.insert_member::<SetCol>(k, &x);
                initial.insert((3, *k, x), Some("in".into()));
            }
        }
        for (k, v) in &sc.pre_sm {
            wb.put::<SmCol, SmVal>(k, &SmVal(*v));
            initial.insert((0, *k, 0), Some(v.to_string()));
        }
        wb.commit();
    }
    let wm = Arc::new(st.new_write_manager());
    let sm = Arc::new(st.new_single_map::<SmCol, SmVal>());
    let dm = Arc::new(st.new_dynamic_map::<DmCol>());
    let set = Arc::new(st.new_key_of_set_map::<SetCol, SetC>());
    let hist = Arc::new(Mutex::new(History::default()));
    let clock = Arc::new(AtomicU64::new(1));

    let mut bodies: Vec<Box<dyn FnOnce() + Send>> = Vec::new();
    for (t, ops) in sc.threads.iter().enumerate() {
        let ops = ops.clone();
        let (wm, sm, dm, set, hist, clock) =
            (wm.clone(), sm.clone(), dm.clone(), set.clone(), hist.clone(), clock.clone());
        bodies.push(Box::new(move || {
            let mut open = HashMap::new();
            let tick = || clock.fetch_add(1, Ordering::SeqCst);
            for op in ops {
                let inv = tick();
                if std::env::var_os("VERIF_TRACE").is_some() {
                    eprintln!("T{t} op {op:?} inv={inv}");
                }
                let rec_w = |reg: Reg, val: Option<String>, inv: u64| {
                    let ret = tick();
                    hist.lock().writes.entry(reg).or_default().push(WriteEv { inv, ret, val });
                };
                let rec_r = |reg: Reg, val: Option<String>, inv: u64| {
                    let ret = tick();
                    hist.lock().reads.push((reg, ReadEv { inv, ret, thread: t, val }));
                };
                match op {
                    Op::NewBatch(b) => {
                        open.insert(b, wm.new_write_batch());
                    }
                    Op::Submit(b) => {
                        if let Some(wb) = open.remove(&b) {
                            wm.submit_write_batch(wb);
                        }
                    }
                    Op::SmIns(b, k, v) => {
                        if let Some(wb) = open.get_mut(&b) {
                            drive(sm.insert(k, SmVal(v), wb));
                            rec_w((0, k, 0), Some(v.to_string()), inv);
                        }
                    }
                    Op::SmDel(b, k) => {
                        if let Some(wb) = open.get_mut(&b) {
                            drive(sm.remove(&k, wb));
                            rec_w((0, k, 0), None, inv);
                        }
                    }
                    Op::DmAIns(b, k, v) => {
                        if let Some(wb) = open.get_mut(&b) {
                            drive(dm.insert(k, DmA(v), wb));
                            rec_w((1, k, 0), Some(v.to_string()), inv);
                        }
                    }
                    Op::DmADel(b, k) => {
                        if let Some(wb) = open.get_mut(&b) {
                            drive(dm.remove::<DmA>(&k, wb));
                            rec_w((1, k, 0), None, inv);
                        }
                    }
                    Op::DmBIns(b, k, s) => {
                        if let Some(wb) = open.get_mut(&b) {
                            drive(dm.insert(k, DmB(s.clone()), wb));
                            rec_w((2, k, 0), Some(s), inv);
                        }
                    }
                    Op::DmBDel(b, k) => {
                        if let Some(wb) = open.get_mut(&b) {
                            drive(dm.remove::<DmB>(&k, wb));
                            rec_w((2, k, 0), None, inv);
                        }
                    }
                    Op::SetIns(b, k, x) => {
                        if let Some(wb) = open.get_mut(&b) {
                            drive(set.insert(k, x, wb));
                            rec_w((3, k, x), Some("in".into()), inv);
                        }
                    }
                    Op::SetDel(b, k, x) => {
                        if let Some(wb) = open.get_mut(&b) {
                            drive(set.remove(&k, &x, wb));
                            rec_w((3, k, x), None, inv);
                        }
                    }
                    Op::GetSm(k) => {
                        let v = drive(sm.get(&k)).map(|v| v.0.to_string());
                        rec_r((0, k, 0), v, inv);
                    }
                    Op::GetDmA(k) => {
                        let v = drive(dm.get::<DmA>(&k)).map(|v| v.0.to_string());
                        rec_r((1, k, 0), v, inv);
                    }
                    Op::GetDmB(k) => {
                        let v = drive(dm.get::<DmB>(&k)).map(|v| v.0);
                        rec_r((2, k, 0), v, inv);
                    }
                    Op::GetSet(k) => {
                        let members: BTreeSet<u64> = drive(set.get(&k)).collect();
                        let ret = tick();
                        hist.lock().set_reads.push((k, inv, ret, t, members));
                    }
                }
                token::point("h_op");
            }
            for (_, wb) in open {
                wm.submit_write_batch(wb);
            }
        }));
    }
    let rep = token::run(
        token::Config {
            seed: sc.seed,
            stay: sc.stay,
            replay,
            extras: Some(Arc::new(PipelineExtras)),
            on_point: None,
        },
        bodies,
    );
    out.absorb(&rep);
    drop(sm);
    drop(dm);
    drop(set);
    if let Ok(wm) = Arc::try_unwrap(wm) {
        drop(wm);
    }
    pipeline::step_disable();

    // ---- oracle ------------------------------------------------------------
    let h = hist.lock();
    let names = ["single map", "dynamic map (value type A)", "dynamic map (value type B)", "set"];
    let mut checked = 0u64;
    for (reg, r) in &h.reads {
        let ws = h.writes.get(reg).map(Vec::as_slice).unwrap_or(&[]);
        let init = initial.get(reg).cloned().unwrap_or(None);
        let acc = acceptable(ws, &init, r.inv, r.ret);
        checked += 1;
        if !acc.contains(&r.val) {
            out.fail(
                "stale_read",
                format!(
                    "{} key {}: thread {} read {:?}; the writes issued before / during the read allow only {:?}",
                    names[reg.0 as usize], reg.1, r.thread, r.val, acc
                ),
            );
        }
    }
    for (k, inv, ret, t, members) in &h.set_reads {
        // every element that was ever written or pre-populated for this key
        let mut elems: BTreeSet<u64> = h.writes.keys().filter(|r| r.0 == 3 && r.1 == *k).map(|r| r.2).collect();
        elems.extend(initial.keys().filter(|r| r.0 == 3 && r.1 == *k).map(|r| r.2));
        elems.extend(members.iter().copied());
        for x in elems {
            let reg = (3u8, *k, x);
            let ws = h.writes.get(&reg).map(Vec::as_slice).unwrap_or(&[]);
            let init = initial.get(&reg).cloned().unwrap_or(None);
            let acc = acceptable(ws, &init, *inv, *ret);
            let got = members.contains(&x).then(|| "in".to_string());
            checked += 1;
            if !acc.contains(&got) {
                out.fail(
                    "stale_read",
                    format!(
                        "set key {k}: thread {t} iterated the set and element {x} was {}; the inserts / removes issued before / during the read allow only {:?} ({} members returned)",
                        if got.is_some() { "present" } else { "absent" },
                        acc,
                        members.len()
                    ),
                );
            }
        }
    }
    out.stats.insert("reads_checked".into(), checked);
    // ---- durability of the final state after shutdown -----------------------------
    for (reg, ws) in &h.writes {
        let want = ws.last().unwrap().val.clone();
        let got = match reg.0 {
            0 => kv.get_wide_column::<SmCol, SmVal>(&reg.1).map(|v| v.0.to_string()),
            1 => kv.get_wide_column::<DmCol, DmA>(&reg.1).map(|v| v.0.to_string()),
            2 => kv.get_wide_column::<DmCol, DmB>(&reg.1).map(|v| v.0),
            _ => kv.scan_members::<SetCol>(&reg.1).any(|x| x == reg.2).then(|| "in".to_string()),
        };
        if got != want {
            out.fail(
                "final_store_content",
                format!("{} key {} elem {}: after shutdown the store has {got:?}, the last write was {want:?}", names[reg.0 as usize], reg.1, reg.2),
            );
        }
    }
    let miss = out.probes.get("wcc_after_miss").copied().unwrap_or(0) + out.probes.get("kos_between_fetch_and_entry").copied().unwrap_or(0);
    out.stats.insert("cache_miss_paths".into(), miss);
    out.nontrivial = miss > 0 && rep.extra_steps > 0 && !h.writes.is_empty();
    out
}

pub fn shrink_candidates(sc: &Scenario) -> Vec<Scenario> {
    let mut v = Vec::new();
    for t in 0..sc.threads.len() {
        if sc.threads.len() > 1 {
            let mut c = sc.clone();
            c.threads.remove(t);
            v.push(c);
        }
        // drop halves, then single ops
        let n = sc.threads[t].len();
        if n > 8 {
            for (a, b) in [(0, n / 2), (n / 2, n), (n / 4, 3 * n / 4)] {
                let mut c = sc.clone();
                c.threads[t].drain(a..b);
                v.push(c);
            }
        }
        for i in (0..n).rev() {
            let mut c = sc.clone();
            c.threads[t].remove(i);
            v.push(c);
        }
    }
    if !sc.big_sets.is_empty() {
        let mut c = sc.clone();
        c.big_sets.clear();
        v.push(c);
    }
    if !sc.pre_sm.is_empty() {
        let mut c = sc.clone();
        c.pre_sm.clear();
        v.push(c);
    }
    v
}
