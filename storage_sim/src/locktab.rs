//! C16 (b): the per-query lock table built on the admission cache - two
//! tasks asking for the lock of the same query always contend on the same
//! lock, even while the table is evicting.

use std::sync::{
    Arc,
    atomic::{AtomicI64, AtomicU64, Ordering},
};

use parking_lot::Mutex;
use qbice::{query::QueryID, verif::QueryLockManager};
use serde::{Deserialize, Serialize};
use simkit::{Rng, token};

use crate::common::{Outcome, drive};

#[derive(Clone, Debug, Serialize, Deserialize)]
pub enum Op {
    /// take the lock of a hot id (exclusive?), hold it over `hold` points
    Lock(u32, bool, u8),
    /// touch a stream of cold ids to force eviction
    Cold(u32, u8),
}

#[derive(Clone, Debug, Serialize, Deserialize)]
pub struct Scenario {
    pub seed: u64,
    pub capacity: u64,
    pub stay: (u64, u64),
    pub threads: Vec<Vec<Op>>,
}

fn qid(x: u32) -> QueryID { QueryID::from_parts(u128::from(x).into(), (u128::from(x) * 31 + 7).into()) }

pub fn generate(seed: u64, thorough: bool) -> Scenario {
    let mut r = Rng::new(seed).split(simkit::label("locktab-workload"));
    let n_threads = r.range(2, 4) as usize;
    let hot = r.range(1, 3) as u32;
    let mut cold = 1000u32;
    let threads = (0..n_threads)
        .map(|_| {
            (0..r.range(4, if thorough { 60 } else { 20 }))
                .map(|_| {
                    if r.chance(3, 5) {
                        Op::Lock(r.below(u64::from(hot)) as u32, r.chance(1, 2), r.range(0, 3) as u8)
                    } else {
                        cold += 40;
                        Op::Cold(cold, r.range(5, 40) as u8)
                    }
                })
                .collect()
        })
        .collect();
    Scenario { seed, capacity: r.range(1, 8), stay: (r.range(0, 2), 4), threads }
}

pub fn run(sc: &Scenario, replay: Option<Vec<String>>) -> Outcome {
    let mut out = Outcome::default();
    crate::common::set_sites(&["lfu_"]);
    let mgr = Arc::new(QueryLockManager::new(sc.capacity));
    // per hot id: number of shared holders / exclusive holders
    let shared: Arc<Vec<AtomicI64>> = Arc::new((0..4).map(|_| AtomicI64::new(0)).collect());
    let excl: Arc<Vec<AtomicI64>> = Arc::new((0..4).map(|_| AtomicI64::new(0)).collect());
    let viol: Arc<Mutex<Option<String>>> = Arc::new(Mutex::new(None));
    let sections = Arc::new(AtomicU64::new(0));
    let held_during_cold = Arc::new(AtomicU64::new(0));
    let mut bodies: Vec<Box<dyn FnOnce() + Send>> = Vec::new();
    for (t, ops) in sc.threads.iter().enumerate() {
        let ops = ops.clone();
        let (mgr, shared, excl, viol, sections, held_during_cold) =
            (mgr.clone(), shared.clone(), excl.clone(), viol.clone(), sections.clone(), held_during_cold.clone());
        bodies.push(Box::new(move || {
            for op in ops {
                match op {
                    Op::Lock(id, exclusive, hold) => {
                        let i = id as usize;
                        let guard = if exclusive {
                            drive(mgr.acquire_exclusive_lock(&qid(id)))
                        } else {
                            drive(mgr.acquire_shared_lock(&qid(id)))
                        };
                        sections.fetch_add(1, Ordering::SeqCst);
                        let check = |when: &str| {
                            let s = shared[i].load(Ordering::SeqCst);
                            let e = excl[i].load(Ordering::SeqCst);
                            let bad = if exclusive { s != 0 || e != 1 } else { e != 0 || s < 1 };
                            if bad {
                                viol.lock().get_or_insert(format!(
                                    "thread {t} holds the {} lock of query {id} {when} and observes {s} shared and {e} exclusive holders: two tasks got different lock instances for one query",
                                    if exclusive { "exclusive" } else { "shared" }
                                ));
                            }
                        };
                        if exclusive { excl[i].fetch_add(1, Ordering::SeqCst) } else { shared[i].fetch_add(1, Ordering::SeqCst) };
                        check("on entry");
                        for _ in 0..hold {
                            token::point("h_in_critical_section");
                            check("inside the critical section");
                        }
                        if exclusive { excl[i].fetch_sub(1, Ordering::SeqCst) } else { shared[i].fetch_sub(1, Ordering::SeqCst) };
                        drop(guard);
                    }
                    Op::Cold(base, n) => {
                        if shared.iter().chain(excl.iter()).any(|c| c.load(Ordering::SeqCst) > 0) {
                            held_during_cold.fetch_add(1, Ordering::SeqCst);
                        }
                        for k in 0..u32::from(n) {
                            drop(mgr.get_lock_instance(&qid(base + k)));
                        }
                    }
                }
                token::point("h_op");
            }
        }));
    }
    let rep = token::run(token::Config { seed: sc.seed, stay: sc.stay, replay, extras: None, on_point: None }, bodies);
    out.absorb(&rep);
    if let Some(v) = viol.lock().clone() {
        out.fail("lock_not_exclusive", v);
    }
    out.stats.insert("critical_sections".into(), sections.load(Ordering::SeqCst));
    out.stats.insert("evictions_forced_while_lock_held".into(), held_during_cold.load(Ordering::SeqCst));
    out.nontrivial = held_during_cold.load(Ordering::SeqCst) > 0 && rep.switches > 0;
    out
}

pub fn shrink_candidates(sc: &Scenario) -> Vec<Scenario> {
    let mut v = Vec::new();
    for t in 0..sc.threads.len() {
        if sc.threads.len() > 2 {
            let mut c = sc.clone();
            c.threads.remove(t);
            v.push(c);
        }
        for i in (0..sc.threads[t].len()).rev() {
            let mut c = sc.clone();
            c.threads[t].remove(i);
            v.push(c);
        }
    }
    v
}
