//! C02 (structure level, in-memory storage engine): the key-to-set map used
//! for backward edges never loses the element of one of several callers that
//! insert under a key that has no set yet.

use std::{
    collections::{BTreeMap, BTreeSet},
    sync::{
        Arc,
        atomic::{AtomicU64, Ordering},
    },
};

use parking_lot::Mutex;
use qbice_storage::{
    key_of_set_map::{KeyOfSetMap, in_memory::InMemoryKeyOfSetMap},
    write_batch::FauxWriteBatch,
};
use serde::{Deserialize, Serialize};
use simkit::{Rng, token};

use crate::common::{Outcome, SetC, SetCol, WriteEv, acceptable, drive};

#[derive(Clone, Debug, Serialize, Deserialize)]
pub enum Op {
    Insert(u32, u64),
    Remove(u32, u64),
    Get(u32),
}

#[derive(Clone, Debug, Serialize, Deserialize)]
pub struct Scenario {
    pub seed: u64,
    pub stay: (u64, u64),
    pub threads: Vec<Vec<Op>>,
}

pub fn generate(seed: u64, thorough: bool) -> Scenario {
    let mut r = Rng::new(seed).split(simkit::label("imkos-workload"));
    let n_threads = r.range(2, 4) as usize;
    let keys = r.range(1, 3) as u32;
    let threads = (0..n_threads)
        .map(|t| {
            (0..r.range(2, if thorough { 16 } else { 8 }))
                .map(|_| {
                    let k = r.below(u64::from(keys)) as u32;
                    // single writer per element
                    let x = t as u64 + n_threads as u64 * r.below(3);
                    match r.below(8) {
                        0..=4 => Op::Insert(k, x),
                        5 => Op::Remove(k, x),
                        _ => Op::Get(k),
                    }
                })
                .collect()
        })
        .collect();
    Scenario { seed, stay: (r.range(0, 2), 4), threads }
}

#[derive(Default)]
struct Hist {
    writes: BTreeMap<(u32, u64), Vec<WriteEv>>,
    reads: Vec<(u32, u64, u64, usize, BTreeSet<u64>)>,
}

pub fn run(sc: &Scenario, replay: Option<Vec<String>>) -> Outcome {
    let mut out = Outcome::default();
    crate::common::set_sites(&["imk_"]);
    let map: Arc<InMemoryKeyOfSetMap<SetCol, SetC>> = Arc::new(InMemoryKeyOfSetMap::new());
    let hist = Arc::new(Mutex::new(Hist::default()));
    let clock = Arc::new(AtomicU64::new(1));
    let keys: BTreeSet<u32> = sc
        .threads
        .iter()
        .flatten()
        .map(|o| match o {
            Op::Insert(k, _) | Op::Remove(k, _) | Op::Get(k) => *k,
        })
        .collect();
    let mut bodies: Vec<Box<dyn FnOnce() + Send>> = Vec::new();
    for (t, ops) in sc.threads.iter().enumerate() {
        let mut ops = ops.clone();
        for k in &keys {
            ops.push(Op::Get(*k));
        }
        let (map, hist, clock) = (map.clone(), hist.clone(), clock.clone());
        bodies.push(Box::new(move || {
            let tick = || clock.fetch_add(1, Ordering::SeqCst);
            let mut wb = FauxWriteBatch;
            for op in ops {
                let inv = tick();
                match op {
                    Op::Insert(k, x) => {
                        hist.lock().writes.entry((k, x)).or_default().push(WriteEv { inv, ret: u64::MAX, val: Some("in".into()) });
                        drive(map.insert(k, x, &mut wb));
                        let ret = tick();
                        hist.lock().writes.get_mut(&(k, x)).unwrap().last_mut().unwrap().ret = ret;
                    }
                    Op::Remove(k, x) => {
                        hist.lock().writes.entry((k, x)).or_default().push(WriteEv { inv, ret: u64::MAX, val: None });
                        drive(map.remove(&k, &x, &mut wb));
                        let ret = tick();
                        hist.lock().writes.get_mut(&(k, x)).unwrap().last_mut().unwrap().ret = ret;
                    }
                    Op::Get(k) => {
                        let got: BTreeSet<u64> = drive(map.get(&k)).collect();
                        let ret = tick();
                        hist.lock().reads.push((k, inv, ret, t, got));
                    }
                }
                token::point("h_op");
            }
        }));
    }
    let rep = token::run(token::Config { seed: sc.seed, stay: sc.stay, replay, extras: None, on_point: None }, bodies);
    out.absorb(&rep);
    let h = hist.lock();
    for (k, inv, ret, t, got) in &h.reads {
        let mut elems: BTreeSet<u64> = h.writes.keys().filter(|w| w.0 == *k).map(|w| w.1).collect();
        elems.extend(got.iter().copied());
        for x in elems {
            let acc = acceptable(h.writes.get(&(*k, x)).map(Vec::as_slice).unwrap_or(&[]), &None, *inv, *ret);
            let g = got.contains(&x).then(|| "in".to_string());
            if !acc.contains(&g) {
                out.fail(
                    "lost_element",
                    format!(
                        "in-memory key-of-set map, key {k}: thread {t} read the set and element {x} was {}; the inserts / removes issued before / during the read allow only {acc:?}",
                        if g.is_some() { "present" } else { "absent" }
                    ),
                );
            }
        }
    }
    let win = out.probes.get("imk_after_miss").copied().unwrap_or(0);
    out.stats.insert("first_insert_windows".into(), win);
    out.nontrivial = win > 1 && rep.switches > 0;
    out
}

pub fn shrink_candidates(sc: &Scenario) -> Vec<Scenario> {
    let mut v = Vec::new();
    for t in 0..sc.threads.len() {
        if sc.threads.len() > 2 {
            let mut c = sc.clone();
            c.threads.remove(t);
            v.push(c);
        }
        for i in (0..sc.threads[t].len()).rev() {
            let mut c = sc.clone();
            c.threads[t].remove(i);
            v.push(c);
        }
    }
    v
}
