//! Shared pieces of the storage-level harnesses.

use std::{
    collections::BTreeMap,
    future::Future,
    pin::Pin,
    sync::Arc,
    task::{Context, Poll, RawWaker, RawWakerVTable, Waker},
};

use qbice::{Decode, Encode, Identifiable};
use qbice_storage::{
    kv_database::{DiscriminantEncoding, KeyOfSetColumn, WideColumn, WideColumnValue},
    storage_engine::db_backed::{Configuration, DbBacked},
};
use simkit::{
    pipeline,
    simkv::{Disk, SimKv},
    token,
};

// ---- columns ---------------------------------------------------------------

#[derive(Debug, Clone, Copy, PartialEq, Eq, PartialOrd, Ord, Hash, Identifiable)]
pub struct SmCol;
impl WideColumn for SmCol {
    type Key = u32;
    type Discriminant = ();
    fn discriminant_encoding() -> DiscriminantEncoding { DiscriminantEncoding::Prefixed }
}
#[derive(Debug, Clone, PartialEq, Eq, Encode, Decode)]
pub struct SmVal(pub u64);
impl WideColumnValue<SmCol> for SmVal {
    fn discriminant() {}
}

#[derive(Debug, Clone, Copy, PartialEq, Eq, PartialOrd, Ord, Hash, Identifiable)]
pub struct DmCol;
impl WideColumn for DmCol {
    type Key = u32;
    type Discriminant = u8;
    fn discriminant_encoding() -> DiscriminantEncoding { DiscriminantEncoding::Suffixed }
}
#[derive(Debug, Clone, PartialEq, Eq, Encode, Decode)]
pub struct DmA(pub u64);
impl WideColumnValue<DmCol> for DmA {
    fn discriminant() -> u8 { 1 }
}
#[derive(Debug, Clone, PartialEq, Eq, Encode, Decode)]
pub struct DmB(pub String);
impl WideColumnValue<DmCol> for DmB {
    fn discriminant() -> u8 { 2 }
}

#[derive(Debug, Clone, Copy, PartialEq, Eq, PartialOrd, Ord, Hash, Identifiable)]
pub struct SetCol;
impl KeyOfSetColumn for SetCol {
    type Key = u32;
    type Element = u64;
}
pub type SetC = Arc<dashmap::DashSet<u64, fxhash::FxBuildHasher>>;

/// one marker per write batch: identifies the logical batches in the disk log
#[derive(Debug, Clone, Copy, PartialEq, Eq, PartialOrd, Ord, Hash, Identifiable)]
pub struct MarkCol;
impl WideColumn for MarkCol {
    type Key = u64;
    type Discriminant = ();
    fn discriminant_encoding() -> DiscriminantEncoding { DiscriminantEncoding::Prefixed }
}
#[derive(Debug, Clone, PartialEq, Eq, Encode, Decode)]
pub struct Mark(pub u64);
impl WideColumnValue<MarkCol> for Mark {
    fn discriminant() {}
}

pub fn storage(disk: &Disk, cache_cap: u64, n_ser: usize) -> (DbBacked<SimKv>, SimKv) {
    let kv = SimKv { disk: disk.clone(), plugin: Arc::new(qbice_serialize::Plugin::default()) };
    (
        DbBacked::new(
            kv.clone(),
            Configuration::builder().cache_capacity(cache_cap).serialization_workers(n_ser).build(),
        ),
        kv,
    )
}

// ---- driving futures from plain threads --------------------------------------

fn noop_waker() -> Waker {
    fn clone(_: *const ()) -> RawWaker { RawWaker::new(std::ptr::null(), &VTABLE) }
    fn noop(_: *const ()) {}
    static VTABLE: RawWakerVTable = RawWakerVTable::new(clone, noop, noop, noop);
    unsafe { Waker::from_raw(RawWaker::new(std::ptr::null(), &VTABLE)) }
}

/// Poll `f` to completion on the calling thread.  A `Pending` poll is a
/// scheduling point: the thread hands the token on and polls again when it is
/// chosen (the storage layer only waits for other threads' single-flight).
pub fn drive<F: Future>(f: F) -> F::Output {
    let mut f = Box::pin(f);
    let w = noop_waker();
    let mut cx = Context::from_waker(&w);
    let mut spins = 0u64;
    loop {
        match Pin::as_mut(&mut f).poll(&mut cx) {
            Poll::Ready(v) => return v,
            Poll::Pending => {
                spins += 1;
                assert!(
                    token::is_registered() && spins < 1_000_000,
                    "a storage future is pending and nobody can complete it"
                );
                token::point("await_pending");
            }
        }
    }
}

// ---- hooks ---------------------------------------------------------------------

thread_local! {
    pub static LAST_CREATED: std::cell::Cell<Option<u64>> = const { std::cell::Cell::new(None) };
}

fn hook_task_decide(_site: &'static str, _k: qbice_storage::verif::PointKind) -> u32 { 0 }

/// site prefixes at which harness threads may be descheduled in this run
static SITES: std::sync::Mutex<Vec<&'static str>> = std::sync::Mutex::new(Vec::new());

pub fn set_sites(prefixes: &[&'static str]) { *SITES.lock().unwrap() = prefixes.to_vec(); }

fn hook_thread_point(site: &'static str) {
    if std::env::var_os("VERIF_TRACE").is_some() {
        eprintln!("  [{:?}] {site}", std::thread::current().name().map(str::to_string));
    }
    if site.starts_with("wb_") {
        pipeline::step_thread_point(site);
    } else if token::is_registered() && SITES.lock().unwrap().iter().any(|p| site.starts_with(p)) {
        token::point(site);
    }
}

fn hook_event(site: &'static str, a: u64, b: u64) {
    if std::env::var_os("VERIF_TRACE").is_some() {
        eprintln!("  [{:?}] event {site} {a} {b}", std::thread::current().name().map(str::to_string));
    }
    if site == "wb_created" {
        LAST_CREATED.with(|c| c.set(Some(a)));
    }
    pipeline::step_event(site, a, b);
}

pub fn install_hooks() {
    qbice_storage::verif::install(qbice_storage::verif::Hooks {
        task_decide: hook_task_decide,
        thread_point: hook_thread_point,
        event: hook_event,
    });
}

// ---- pipeline steps as extra actions of the token scheduler -------------------

pub struct PipelineExtras;

impl token::Extras for PipelineExtras {
    fn available(&self) -> Vec<String> {
        pipeline::step_available()
            .into_iter()
            .map(|(st, e)| {
                format!(
                    "{}:{e}",
                    match st {
                        pipeline::Stage::Serialize => "ser",
                        pipeline::Stage::Commit => "commit",
                        pipeline::Stage::AfterCommit => "ac",
                    }
                )
            })
            .collect()
    }
    fn perform(&self, label: &str) {
        let (st, e) = label.split_once(':').unwrap();
        let stage = match st {
            "ser" => pipeline::Stage::Serialize,
            "commit" => pipeline::Stage::Commit,
            _ => pipeline::Stage::AfterCommit,
        };
        pipeline::step_run(stage, e.parse().unwrap());
    }
}

// ---- outcome -------------------------------------------------------------------

#[derive(Clone, Debug, Default)]
pub struct Outcome {
    pub failure: Option<(String, String, Option<String>)>,
    pub nontrivial: bool,
    pub trace_hash: u64,
    pub choices: Vec<String>,
    pub stats: BTreeMap<String, u64>,
    pub probes: BTreeMap<String, u64>,
    pub faults: BTreeMap<String, u64>,
}

impl Outcome {
    pub fn fail(&mut self, class: &str, msg: String) {
        if self.failure.is_none() {
            self.failure = Some((class.to_string(), msg, None));
        }
    }
    pub fn absorb(&mut self, r: &token::Report) {
        self.trace_hash = r.trace_hash;
        self.choices = r.choices.clone();
        for (k, v) in &r.hits {
            *self.probes.entry((*k).to_string()).or_insert(0) += v;
        }
        *self.stats.entry("sched_events".into()).or_insert(0) += r.events;
        *self.stats.entry("thread_switches".into()).or_insert(0) += r.switches;
        *self.stats.entry("pipeline_steps".into()).or_insert(0) += r.extra_steps;
        if let Some(p) = &r.panicked {
            self.fail("panic", p.clone());
        }
    }
}

// ---- single-writer register histories ------------------------------------------

#[derive(Clone, Debug)]
pub struct WriteEv {
    pub inv: u64,
    pub ret: u64,
    /// value as a string (None = absent)
    pub val: Option<String>,
}


/// Values a read of a single-writer register may return.
pub fn acceptable(writes: &[WriteEv], initial: &Option<String>, inv: u64, ret: u64) -> Vec<Option<String>> {
    // writes of one register come from one thread: totally ordered
    let last_before = writes.iter().rposition(|w| w.ret < inv);
    let mut acc = Vec::new();
    match last_before {
        Some(i) => acc.push(writes[i].val.clone()),
        None => acc.push(initial.clone()),
    }
    let start = last_before.map_or(0, |i| i + 1);
    for w in &writes[start..] {
        if w.inv < ret {
            acc.push(w.val.clone());
        }
    }
    acc
}

