//! C02 (structure level): the backward-edge set of a callee never loses the
//! edge of one of many concurrent callers - `CompressedBackwardEdgeSet`
//! (small vector up to 32 callers, concurrent set above) and the plain
//! `Arc<DashSet>` driven by token-scheduled threads, checked against a
//! sequential set per element (single writer per element, any reader).

use std::{
    collections::{BTreeMap, BTreeSet},
    sync::{
        Arc,
        atomic::{AtomicU64, Ordering},
    },
};

use parking_lot::Mutex;
use qbice::{query::QueryID, verif::CompressedBackwardEdgeSet};
use qbice_storage::key_of_set_map::ConcurrentSet;
use serde::{Deserialize, Serialize};
use simkit::{Rng, token};

use crate::common::{Outcome, WriteEv, acceptable};

#[derive(Clone, Debug, Serialize, Deserialize)]
pub enum Op {
    Insert(u32),
    Remove(u32),
    Len,
    Iter,
}

#[derive(Clone, Debug, Serialize, Deserialize)]
pub struct Scenario {
    pub seed: u64,
    pub stay: (u64, u64),
    pub prefill: u32,
    pub threads: Vec<Vec<Op>>,
}

fn qid(x: u32) -> QueryID { QueryID::from_parts(u128::from(x).into(), (u128::from(x) * 7 + 1).into()) }

pub fn generate(seed: u64, thorough: bool) -> Scenario {
    let mut r = Rng::new(seed).split(simkit::label("cbes-workload"));
    let n_threads = r.range(2, 4) as usize;
    let prefill = r.range(27, 33) as u32;
    let threads = (0..n_threads)
        .map(|t| {
            let n = r.range(3, if thorough { 24 } else { 10 });
            (0..n)
                .map(|_| {
                    // thread t owns elements 100 + t, 100 + t + n_threads, ...
                    let mine = 100 + t as u32 + n_threads as u32 * r.below(4) as u32;
                    match r.below(10) {
                        0..=4 => Op::Insert(mine),
                        5 | 6 => Op::Remove(mine),
                        7 => Op::Len,
                        _ => Op::Iter,
                    }
                })
                .collect()
        })
        .collect();
    Scenario { seed, stay: (r.range(0, 2), 4), prefill, threads }
}

#[derive(Default)]
struct Hist {
    writes: BTreeMap<u32, Vec<WriteEv>>,
    iters: Vec<(u64, u64, usize, BTreeSet<u32>)>,
    lens: Vec<(u64, u64, usize, usize)>,
    ret_mismatch: Option<String>,
}

pub fn run(sc: &Scenario, replay: Option<Vec<String>>) -> Outcome {
    let mut out = Outcome::default();
    crate::common::set_sites(&["bes_"]);
    type S = CompressedBackwardEdgeSet<fxhash::FxBuildHasher>;
    let set: S = S::default();
    for x in 0..sc.prefill {
        set.insert_element(qid(x));
    }
    let hist = Arc::new(Mutex::new(Hist::default()));
    let clock = Arc::new(AtomicU64::new(1));
    let back: Arc<BTreeMap<QueryID, u32>> =
        Arc::new((0..sc.prefill).chain(100..140).map(|x| (qid(x), x)).collect());
    let mut bodies: Vec<Box<dyn FnOnce() + Send>> = Vec::new();
    for (t, ops) in sc.threads.iter().enumerate() {
        let ops = ops.clone();
        let (set, hist, clock, back) = (set.clone(), hist.clone(), clock.clone(), back.clone());
        bodies.push(Box::new(move || {
            let tick = || clock.fetch_add(1, Ordering::SeqCst);
            let mut mine: BTreeSet<u32> = BTreeSet::new();
            let mut ops = ops;
            // every thread ends with a full read
            ops.push(Op::Iter);
            ops.push(Op::Len);
            for op in ops {
                let inv = tick();
                match op {
                    Op::Insert(x) => {
                        hist.lock().writes.entry(x).or_default().push(WriteEv { inv, ret: u64::MAX, val: Some("in".into()) });
                        let newly = set.insert_element(qid(x));
                        let ret = tick();
                        let mut h = hist.lock();
                        h.writes.get_mut(&x).unwrap().last_mut().unwrap().ret = ret;
                        let want = mine.insert(x);
                        if newly != want && h.ret_mismatch.is_none() {
                            h.ret_mismatch = Some(format!("thread {t}: insert({x}) returned {newly}, the only writer of that element expects {want}"));
                        }
                    }
                    Op::Remove(x) => {
                        hist.lock().writes.entry(x).or_default().push(WriteEv { inv, ret: u64::MAX, val: None });
                        let was = set.remove_element(&qid(x));
                        let ret = tick();
                        let mut h = hist.lock();
                        h.writes.get_mut(&x).unwrap().last_mut().unwrap().ret = ret;
                        let want = mine.remove(&x);
                        if was != want && h.ret_mismatch.is_none() {
                            h.ret_mismatch = Some(format!("thread {t}: remove({x}) returned {was}, the only writer of that element expects {want}"));
                        }
                    }
                    Op::Len => {
                        let n = set.len();
                        let ret = tick();
                        hist.lock().lens.push((inv, ret, t, n));
                    }
                    Op::Iter => {
                        let got: BTreeSet<u32> = set.iter().map(|q| back.get(&q).copied().unwrap_or(u32::MAX)).collect();
                        let ret = tick();
                        hist.lock().iters.push((inv, ret, t, got));
                    }
                }
                token::point("h_op");
            }
        }));
    }
    let rep = token::run(token::Config { seed: sc.seed, stay: sc.stay, replay, extras: None, on_point: None }, bodies);
    out.absorb(&rep);
    let h = hist.lock();
    if let Some(m) = &h.ret_mismatch {
        out.fail("set_not_linearizable", m.clone());
    }
    let universe: Vec<u32> = (0..sc.prefill).chain(100..140).collect();
    let init = |x: u32| -> Option<String> { (x < sc.prefill).then(|| "in".to_string()) };
    for (inv, ret, t, got) in &h.iters {
        for x in &universe {
            let acc = acceptable(h.writes.get(x).map(Vec::as_slice).unwrap_or(&[]), &init(*x), *inv, *ret);
            let g = got.contains(x).then(|| "in".to_string());
            if !acc.contains(&g) {
                out.fail(
                    "lost_element",
                    format!(
                        "thread {t} iterated the set ({} elements) and element {x} was {}; the inserts / removes issued before / during the call allow only {acc:?}",
                        got.len(),
                        if g.is_some() { "present" } else { "absent" }
                    ),
                );
            }
        }
    }
    for (inv, ret, t, n) in &h.lens {
        let mut lo = 0usize;
        let mut hi = 0usize;
        for x in &universe {
            let acc = acceptable(h.writes.get(x).map(Vec::as_slice).unwrap_or(&[]), &init(*x), *inv, *ret);
            let can_in = acc.iter().any(Option::is_some);
            let can_out = acc.iter().any(Option::is_none);
            if can_in {
                hi += 1;
                if !can_out {
                    lo += 1;
                }
            }
        }
        if *n < lo || *n > hi {
            out.fail("lost_element", format!("thread {t}: len() = {n}, any linearization gives between {lo} and {hi}"));
        }
    }
    let win = out.probes.get("bes_upgrade_window").copied().unwrap_or(0);
    out.stats.insert("upgrade_windows".into(), win);
    out.nontrivial = win > 0 && rep.switches > 0;
    out
}

pub fn shrink_candidates(sc: &Scenario) -> Vec<Scenario> {
    let mut v = Vec::new();
    for t in 0..sc.threads.len() {
        if sc.threads.len() > 2 {
            let mut c = sc.clone();
            c.threads.remove(t);
            v.push(c);
        }
        for i in (0..sc.threads[t].len()).rev() {
            let mut c = sc.clone();
            c.threads[t].remove(i);
            v.push(c);
        }
    }
    v
}
