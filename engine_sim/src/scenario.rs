//! Scenario = program + history + configuration.  Self-contained and
//! serialisable: a replay file carries the scenario itself, not the seed.

use serde::{Deserialize, Serialize};
use simkit::sched::Decision;

use crate::program::{Program, Val};

#[derive(Clone, Debug, PartialEq, Eq, Hash, Serialize, Deserialize)]
pub enum SessStep {
    Set { node: u32, val: Val },
    Update { node: u32, delta: i64 },
    Refresh,
}

#[derive(Clone, Copy, Debug, PartialEq, Eq, Hash, Serialize, Deserialize)]
pub enum Target {
    /// the user-level query future (task index in a concurrent phase)
    Query,
    /// the i-th step of the session (set_input / update / refresh)
    SessionStep(u32),
    /// `InputSession::commit`
    Commit,
    /// `Engine::input_session()` itself
    OpenSession,
}

#[derive(Clone, Debug, PartialEq, Eq, Hash, Serialize, Deserialize)]
pub enum Fault {
    /// drop the target future at its n-th suspension (n >= 1)
    Cancel { target: Target, n: u64 },
    /// the executor of `node` panics at its k-th invocation from now
    Panic { node: u32, k: u32 },
}

#[derive(Clone, Debug, PartialEq, Eq, Hash, Serialize, Deserialize)]
pub enum Op {
    Session { steps: Vec<SessStep>, commit: bool },
    SetWorld { node: u32, val: Val },
    /// one user-level request on a (new or reused) tracked engine
    Query { root: u32, new_tracked: bool },
    /// several user-level requests running as concurrent tasks
    Concurrent { roots: Vec<u32>, share_tracked: bool },
    RepairTfc { root: u32 },
    /// clean shutdown + reopen on the same store
    Restart,
    /// let the write-behind pipeline run until it is idle
    Drain,
    /// C04: a writer task runs `sessions` while `readers` reader tasks loop
    /// tracked() / queries / drop
    /// `detach` != 0: executors of normal nodes read the first inputs through
    /// a clone of their engine in a spawned helper task, and the readers
    /// abandon some of their requests (which ones and at which suspension
    /// is derived from `detach`), leaving the helper behind as a reader
    ReadersWriter {
        sessions: Vec<(Vec<SessStep>, bool)>,
        readers: Vec<Vec<Vec<u32>>>,
        #[serde(default)]
        detach: u64,
    },
    /// a faulted operation: `op` runs with `fault` injected
    Faulted { op: Box<Op>, fault: Fault },
}

#[derive(Clone, Debug, PartialEq, Eq, Hash, Serialize, Deserialize)]
pub enum Storage {
    Mem,
    /// DbBacked<SimKv>
    Db { cache_cap: u64, ser_workers: usize, group_max: u32 },
    /// DbBacked over a shipped backend ("rocksdb" | "fjall") on a scratch
    /// directory; the pipeline runs freely
    Real { backend: String, cache_cap: u64 },
}

#[derive(Clone, Debug, PartialEq, Eq, Hash, Serialize, Deserialize)]
pub enum SchedCfg {
    Off,
    Uniform { num: u64, den: u64, k: u32, site_salt: Option<u64>, preempt: bool },
    Pct { points: Vec<u64>, burst: u32, preempt: bool },
}

#[derive(Clone, Debug, PartialEq, Eq, Hash, Serialize, Deserialize)]
pub struct RunCfg {
    pub storage: Storage,
    /// query every firewall bottom-up at the start of each epoch
    pub strict: bool,
    /// EngineOptions::yield_frequency = EveryNQuery(n)
    pub yield_every: Option<usize>,
    pub sched: SchedCfg,
    /// cyclic programs allowed (C06 model)
    pub cyclic: bool,
    /// check the per-invocation justification rule
    pub check_c03: bool,
    /// after the history: clean shutdown, then every prefix of the physical
    /// commit log is opened as a crash state (C08)
    #[serde(default)]
    pub crash_check: bool,
    /// seed for the schedule / fault streams of this run
    pub sched_seed: u64,
    /// values are not judged (free-mode concurrent fault runs, where the
    /// exposure model of KF-C01-1 cannot attribute repair passes to
    /// requests): only progress, panics and the pipeline balance are
    #[serde(default)]
    pub no_values: bool,
    /// CPU affinity of the simulation thread for this run (1 or 2 CPUs):
    /// the engine sizes its chunks of parallel work from
    /// `available_parallelism()`
    #[serde(default)]
    pub cpus: Option<u32>,
    /// after a cancelled request the history goes straight on (a user who
    /// drops a query and opens a session at once) instead of letting the
    /// detached futures finish first
    #[serde(default)]
    pub no_quiesce: bool,
}

#[derive(Clone, Debug, PartialEq, Eq, Hash, Serialize, Deserialize)]
pub struct Scenario {
    pub program: Program,
    pub ops: Vec<Op>,
    pub cfg: RunCfg,
}

/// What a replay file contains.
#[derive(Clone, Debug, Serialize, Deserialize)]
pub struct ReplayFile {
    pub property: String,
    pub harness: String,
    pub seed: u64,
    pub scenario: Scenario,
    /// explicit schedule; when present it replaces the seeded strategy
    pub decisions: Option<Vec<Decision>>,
    pub class: String,
    pub message: String,
    pub known: Option<String>,
    /// real-backend crash runs: the write-behind event at which the child
    /// process killed itself
    #[serde(default)]
    pub kill_at: Option<u64>,
}
