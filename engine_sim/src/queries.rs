//! Query types, harness state and harness executors.  All "user code" the
//! engine runs is defined here; it interprets the scenario's `Program`.

use std::{
    collections::HashMap,
    sync::{
        Arc,
        atomic::{AtomicBool, AtomicU64, Ordering},
    },
};

use parking_lot::Mutex;
use qbice::{
    Config, Decode, Encode, ExecutionStyle, Executor, Identifiable, Query,
    StableHash, TrackedEngine,
};
use simkit::sched::{self, Kind as PK};

use crate::program::{Abort, BoxFut, Kind, Program, Reader, Val, eval};

macro_rules! query_type {
    ($name:ident) => {
        #[derive(
            Debug,
            Clone,
            Copy,
            PartialEq,
            Eq,
            PartialOrd,
            Ord,
            Hash,
            StableHash,
            Encode,
            Decode,
            Identifiable,
        )]
        pub struct $name(pub u32);
        impl Query for $name {
            type Value = Val;
        }
    };
}

query_type!(In);
query_type!(Ex);
query_type!(Nm);
query_type!(Fw);
query_type!(Pj);

pub const SCC_NM: i64 = -1001;
pub const SCC_FW: i64 = -1002;
pub const SCC_PJ: i64 = -1003;

pub fn scc_default(k: Kind) -> Val {
    match k {
        Kind::Nm => vec![SCC_NM],
        Kind::Fw => vec![SCC_FW],
        Kind::Pj => vec![SCC_PJ],
        _ => vec![],
    }
}

/// One executor invocation as seen by the harness.
#[derive(Clone, Debug)]
pub struct Inv {
    pub id: usize,
    pub node: u32,
    pub epoch: u64,
    pub seq: u64,
    pub seq_exit: u64,
    pub reads: Vec<(u32, Val)>,
    pub result: Option<Val>,
    pub aborted: bool,
    pub during_refresh: bool,
    pub refresh_id: u64,
}

#[derive(Clone, Debug)]
pub enum Ev {
    Enter(usize),
    Read(usize, u32, Val),
    Exit(usize),
    Abort(usize),
    /// the invocation started to read a node (the read may be abandoned)
    ReadStart(usize, u32),
    /// the invocation evaluated a partial expression outside its domain
    Outside(usize),
    /// an event reported by a hook inside the engine
    Hook(&'static str, u64, u64),
}

#[derive(Default)]
pub struct HState {
    pub invs: Vec<Inv>,
    pub events: Vec<Ev>,
    pub live: HashMap<u32, u32>,
    pub overlap: Option<String>,
    pub seq: u64,
    /// (node, k): panic at every invocation from the k-th on (0-based,
    /// counted per node) until cleared - a pure executor that panics once
    /// panics again when it is re-executed
    pub panic_at: Option<(u32, u32)>,
    pub inv_count: HashMap<u32, u32>,
    pub injected_panics: u32,
}

/// What a detached helper task of an executor reports (C04).
#[derive(Clone, Debug)]
pub enum HelperEv {
    Start(u64),
    Read(u64, u32, Val),
    Done(u64),
}

/// C04: executors of normal nodes hand a clone of their engine to a spawned
/// helper task that reads `inputs` one after another and reports to `sink`.
#[derive(Clone)]
pub struct HelperCfg {
    pub inputs: Vec<u32>,
    pub sink: Arc<dyn Fn(HelperEv) + Send + Sync>,
}

pub struct Harness {
    pub helper: Mutex<Option<HelperCfg>>,
    pub program: Program,
    pub world: Mutex<HashMap<u32, Val>>,
    pub st: Mutex<HState>,
    pub epoch: AtomicU64,
    pub in_refresh: AtomicBool,
    /// number of `refresh` calls started so far
    pub refresh_id: std::sync::atomic::AtomicU64,
}

impl Harness {
    pub fn new(program: Program) -> Arc<Self> {
        Arc::new(Harness {
            helper: Mutex::new(None),
            program,
            world: Mutex::new(HashMap::new()),
            st: Mutex::new(HState::default()),
            epoch: AtomicU64::new(0),
            in_refresh: AtomicBool::new(false),
            refresh_id: std::sync::atomic::AtomicU64::new(0),
        })
    }

    pub fn next_seq(&self) -> u64 {
        let mut st = self.st.lock();
        st.seq += 1;
        st.seq
    }
}

thread_local! {
    static SINK: std::cell::RefCell<Option<Arc<Harness>>> = const { std::cell::RefCell::new(None) };
}

pub fn set_event_sink(h: Option<Arc<Harness>>) { SINK.with(|s| *s.borrow_mut() = h); }

fn hook_task_decide(site: &'static str, kind: qbice::storage::verif::PointKind) -> u32 {
    sched::decide(
        site,
        match kind {
            qbice::storage::verif::PointKind::Preempt => PK::Preempt,
            qbice::storage::verif::PointKind::Await => PK::Await,
        },
    )
}

fn hook_thread_point(site: &'static str) { simkit::pipeline::on_thread_point(site); }

/// kill -9 of this process at the n-th write-behind event (0 = never)
pub static KILL_AT: std::sync::atomic::AtomicU64 = std::sync::atomic::AtomicU64::new(0);
static WB_EVENTS: std::sync::atomic::AtomicU64 = std::sync::atomic::AtomicU64::new(0);

fn hook_event(site: &'static str, a: u64, b: u64) {
    if site.starts_with("wb_") || site == "simkv_commit" {
        let k = KILL_AT.load(Ordering::SeqCst);
        if k != 0 && WB_EVENTS.fetch_add(1, Ordering::SeqCst) + 1 == k {
            // process death at an arbitrary instant of the pipeline
            unsafe {
                libc::kill(libc::getpid(), libc::SIGKILL);
            }
        }
    }
    simkit::pipeline::on_event(site, a, b);
    if site.starts_with("wb_") || site == "simkv_commit" {
        return;
    }
    sched::probe(site);
    SINK.with(|s| {
        if let Some(h) = s.borrow().as_ref() {
            let mut st = h.st.lock();
            st.seq += 1;
            st.events.push(Ev::Hook(site, a, b));
        }
    });
}

pub fn install_hooks() {
    qbice::storage::verif::install(qbice::storage::verif::Hooks {
        task_decide: hook_task_decide,
        thread_point: hook_thread_point,
        event: hook_event,
    });
}

pub const INJECTED_PANIC: &str = "verif-injected-executor-panic";

struct InvGuard<'a> {
    h: &'a Harness,
    id: usize,
    node: u32,
    done: bool,
}

impl Drop for InvGuard<'_> {
    fn drop(&mut self) {
        let mut st = self.h.st.lock();
        if let Some(c) = st.live.get_mut(&self.node) {
            *c -= 1;
        }
        if !self.done {
            st.invs[self.id].aborted = true;
            st.events.push(Ev::Abort(self.id));
        }
    }
}

struct EngineReader<'a, C: Config> {
    h: &'a Harness,
    te: &'a TrackedEngine<C>,
    inv: usize,
}

pub async fn query_node<C: Config>(
    te: &TrackedEngine<C>,
    prog: &Program,
    n: u32,
) -> Val {
    match prog.kind(n) {
        Kind::In => te.query(&In(n)).await,
        Kind::Ex => te.query(&Ex(n)).await,
        Kind::Nm => te.query(&Nm(n)).await,
        Kind::Fw => te.query(&Fw(n)).await,
        Kind::Pj => te.query(&Pj(n)).await,
    }
}

pub async fn repair_tfc_node<C: Config>(
    te: &TrackedEngine<C>,
    prog: &Program,
    n: u32,
) {
    match prog.kind(n) {
        Kind::In => te.repair_transitive_firewall_callees(&In(n)).await,
        Kind::Ex => te.repair_transitive_firewall_callees(&Ex(n)).await,
        Kind::Nm => te.repair_transitive_firewall_callees(&Nm(n)).await,
        Kind::Fw => te.repair_transitive_firewall_callees(&Fw(n)).await,
        Kind::Pj => te.repair_transitive_firewall_callees(&Pj(n)).await,
    }
}

impl<C: Config> EngineReader<'_, C> {
    async fn read_one(&self, n: u32) -> Val {
        sched::task_point("h_before_read", PK::Harness).await;
        {
            let mut st = self.h.st.lock();
            st.seq += 1;
            st.events.push(Ev::ReadStart(self.inv, n));
        }
        let v = query_node(self.te, &self.h.program, n).await;
        sched::task_point("h_after_read", PK::Harness).await;
        let mut st = self.h.st.lock();
        st.seq += 1;
        st.invs[self.inv].reads.push((n, v.clone()));
        st.events.push(Ev::Read(self.inv, n, v.clone()));
        v
    }
}

impl<C: Config> Reader for EngineReader<'_, C> {
    fn read(&self, n: u32) -> BoxFut<'_, Result<Val, Abort>> {
        Box::pin(async move { Ok(self.read_one(n).await) })
    }

    fn read_join(&self, ns: &[u32]) -> BoxFut<'_, Result<Vec<Val>, Abort>> {
        let ns = ns.to_vec();
        Box::pin(async move {
            Ok(futures::future::join_all(ns.iter().map(|n| self.read_one(*n)))
                .await)
        })
    }

    fn outside_domain(&self) -> Val {
        // not a panic: the oracle decides (a minimised program may read a
        // partial node without its guard, which is not the engine's fault)
        let mut st = self.h.st.lock();
        st.seq += 1;
        st.events.push(Ev::Outside(self.inv));
        vec![crate::program::UNDEF]
    }

    fn read_unord(&self, ns: &[u32]) -> BoxFut<'_, Result<Vec<Val>, Abort>> {
        let ns = ns.to_vec();
        Box::pin(async move {
            // SAFETY (engine contract): the reads of the group are
            // independent of each other by construction of the program.
            unsafe { self.te.start_unordered_callee_group() };
            let r =
                futures::future::join_all(ns.iter().map(|n| self.read_one(*n)))
                    .await;
            unsafe { self.te.end_unordered_callee_group() };
            Ok(r)
        })
    }
}

pub struct NodeExec(pub Arc<Harness>);

impl NodeExec {
    async fn run<C: Config>(&self, n: u32, te: &TrackedEngine<C>) -> Val {
        let h: &Harness = &self.0;
        let (id, do_panic) = {
            let mut st = h.st.lock();
            st.seq += 1;
            let id = st.invs.len();
            let seq = st.seq;
            let live = st.live.entry(n).or_insert(0);
            *live += 1;
            if *live > 1 && st.overlap.is_none() {
                st.overlap = Some(format!(
                    "node {n} executed by two executors at the same time"
                ));
            }
            st.invs.push(Inv {
                id,
                node: n,
                epoch: h.epoch.load(Ordering::SeqCst),
                seq,
                seq_exit: 0,
                reads: Vec::new(),
                result: None,
                aborted: false,
                during_refresh: h.in_refresh.load(Ordering::SeqCst),
                refresh_id: h.refresh_id.load(Ordering::SeqCst),
            });
            st.events.push(Ev::Enter(id));
            let k = {
                let c = st.inv_count.entry(n).or_insert(0);
                let k = *c;
                *c += 1;
                k
            };
            let do_panic = st.panic_at.is_some_and(|(pn, pk)| pn == n && k >= pk);
            (id, do_panic)
        };
        let mut guard = InvGuard { h, id, node: n, done: false };
        sched::task_point("h_exec_enter", PK::Harness).await;
        if do_panic {
            // counted when it happens: the executor may be dropped at the
            // point above (an abandoned sub-query) before it gets here
            h.st.lock().injected_panics += 1;
            panic!("{INJECTED_PANIC}");
        }
        if h.program.kind(n) == Kind::Nm {
            let cfg = h.helper.lock().clone();
            if let Some(cfg) = cfg {
                // the helper outlives this executor when the request is
                // abandoned: it is then a reader of its own
                let te2 = te.clone();
                let hid = h.next_seq();
                let jh = tokio::spawn(async move {
                    (cfg.sink)(HelperEv::Start(hid));
                    for i in &cfg.inputs {
                        sched::task_point("h_helper_read", PK::Harness).await;
                        let v = te2.query(&In(*i)).await;
                        (cfg.sink)(HelperEv::Read(hid, *i, v));
                    }
                    (cfg.sink)(HelperEv::Done(hid));
                    drop(te2);
                });
                if let Err(e) = jh.await {
                    if e.is_panic() {
                        std::panic::resume_unwind(e.into_panic());
                    }
                }
            }
        }
        let v = if h.program.kind(n) == Kind::Ex {
            h.world.lock().get(&n).cloned().unwrap_or_default()
        } else {
            let reader = EngineReader { h, te, inv: id };
            eval(&h.program.nodes[n as usize].expr, &reader)
                .await
                .expect("the engine reader never aborts")
        };
        sched::task_point("h_exec_exit", PK::Harness).await;
        {
            let mut st = h.st.lock();
            st.seq += 1;
            st.invs[id].seq_exit = st.seq;
            st.invs[id].result = Some(v.clone());
            st.events.push(Ev::Exit(id));
        }
        guard.done = true;
        drop(guard);
        v
    }
}

pub const UNSET_INPUT: i64 = -7777;

/// Never invoked in ordinary runs (every input is set before it is read);
/// on an engine recovered from a crash prefix it makes "this input is not in
/// the store" observable as a sentinel instead of a missing-executor panic.
impl<C: Config> Executor<In, C> for NodeExec {
    async fn execute(&self, _q: &In, _te: &TrackedEngine<C>) -> Val {
        vec![UNSET_INPUT]
    }
    fn execution_style() -> ExecutionStyle { ExecutionStyle::Normal }
}

impl<C: Config> Executor<Ex, C> for NodeExec {
    async fn execute(&self, q: &Ex, te: &TrackedEngine<C>) -> Val {
        self.run(q.0, te).await
    }
    fn execution_style() -> ExecutionStyle { ExecutionStyle::ExternalInput }
}

impl<C: Config> Executor<Nm, C> for NodeExec {
    async fn execute(&self, q: &Nm, te: &TrackedEngine<C>) -> Val {
        self.run(q.0, te).await
    }
    fn execution_style() -> ExecutionStyle { ExecutionStyle::Normal }
    fn scc_value() -> Val { scc_default(Kind::Nm) }
}

impl<C: Config> Executor<Fw, C> for NodeExec {
    async fn execute(&self, q: &Fw, te: &TrackedEngine<C>) -> Val {
        self.run(q.0, te).await
    }
    fn execution_style() -> ExecutionStyle { ExecutionStyle::Firewall }
    fn scc_value() -> Val { scc_default(Kind::Fw) }
}

impl<C: Config> Executor<Pj, C> for NodeExec {
    async fn execute(&self, q: &Pj, te: &TrackedEngine<C>) -> Val {
        self.run(q.0, te).await
    }
    fn execution_style() -> ExecutionStyle { ExecutionStyle::Projection }
    fn scc_value() -> Val { scc_default(Kind::Pj) }
}

pub fn register_all<C: Config>(engine: &mut qbice::Engine<C>, h: &Arc<Harness>) {
    let e = Arc::new(NodeExec(h.clone()));
    engine.register_executor::<In, NodeExec>(e.clone());
    engine.register_executor::<Ex, NodeExec>(e.clone());
    engine.register_executor::<Nm, NodeExec>(e.clone());
    engine.register_executor::<Fw, NodeExec>(e.clone());
    engine.register_executor::<Pj, NodeExec>(e);
}
