//! Delta-debugging minimiser for replay files.  A candidate is accepted when
//! it fails with the same class and the same known-finding status, so a new
//! violation can never slide into a recorded finding (or vice versa).

use crate::{
    program::{Expr, Kind},
    run::run_scenario,
    scenario::{Op, ReplayFile, Scenario},
};

fn judge(rf: &ReplayFile, class: &str, msg: &str, known: &Option<String>) -> Option<(String, Option<String>)> {
    // panics and hangs must keep their signature, so that the minimiser
    // cannot slide into a different failure of the same class
    let sig = |m: &str| -> String {
        let m = m.split(" at /").next().unwrap_or(m);
        m.chars().filter(|c| !c.is_ascii_digit()).take(90).collect()
    };
    let same_sig = !matches!(rf.class.as_str(), "panic" | "harness_error") || sig(msg) == sig(&rf.message);
    if class == rf.class && known.is_some() == rf.known.is_some() && same_sig {
        Some((msg.to_string(), known.clone()))
    } else {
        None
    }
}

fn same_failure(rf: &ReplayFile, sc: &Scenario, dec: &Option<Vec<simkit::sched::Decision>>) -> Option<(String, Option<String>)> {
    if rf.class == "stuck" || rf.class == "abort" || std::env::var("VERIF_SHRINK_ISOLATE").is_ok() {
        return same_failure_isolated(rf, sc, dec);
    }
    let out = run_scenario(sc, dec.as_deref());
    let f = out.failure?;
    judge(rf, &f.class, &f.msg, &f.known)
}

/// Run the candidate in a child process: a candidate that blocks or aborts
/// the process is survivable.
fn same_failure_isolated(rf: &ReplayFile, sc: &Scenario, dec: &Option<Vec<simkit::sched::Decision>>) -> Option<(String, Option<String>)> {
    let mut cand = rf.clone();
    cand.scenario = sc.clone();
    cand.decisions = dec.clone();
    let path = std::env::temp_dir().join(format!("verif_shrink_{}_{}.json", std::process::id(), rf.seed));
    std::fs::write(&path, serde_json::to_string(&cand).ok()?).ok()?;
    let exe = std::env::current_exe().ok()?;
    let out = std::process::Command::new(exe)
        .arg("replay")
        .arg(&path)
        .env("VERIF_STUCK_S", "3")
        .stderr(std::process::Stdio::null())
        .output()
        .ok()?;
    let _ = std::fs::remove_file(&path);
    let text = String::from_utf8_lossy(&out.stdout);
    for line in text.lines() {
        if let Ok(j) = serde_json::from_str::<serde_json::Value>(line) {
            if j.get("type").and_then(|t| t.as_str()) == Some("replay") {
                let class = j.get("class").and_then(|c| c.as_str()).unwrap_or("none").to_string();
                let msg = j.get("message").and_then(|c| c.as_str()).unwrap_or("").to_string();
                let known = j.get("known").and_then(|c| c.as_str()).map(str::to_string);
                return judge(rf, &class, &msg, &known);
            }
        }
    }
    // the child died without a verdict: an abort of the process
    judge(rf, "abort", "process aborted", &None)
}

fn op_mentions(op: &Op, n: u32) -> bool {
    match op {
        Op::Session { steps, .. } => steps.iter().any(|s| match s {
            crate::scenario::SessStep::Set { node, .. }
            | crate::scenario::SessStep::Update { node, .. } => *node == n,
            crate::scenario::SessStep::Refresh => false,
        }),
        Op::SetWorld { node, .. } => *node == n,
        Op::Query { root, .. } | Op::RepairTfc { root } => *root == n,
        Op::Concurrent { roots, .. } => roots.contains(&n),
        Op::Restart | Op::Drain => false,
        Op::ReadersWriter { .. } => true,
        Op::Faulted { op, fault } => {
            op_mentions(op, n)
                || matches!(fault, crate::scenario::Fault::Panic { node, .. } if *node == n)
        }
    }
}

fn sub_exprs(e: &Expr) -> Vec<Expr> {
    match e {
        Expr::Const(_) | Expr::Read(_) => vec![],
        Expr::Idx(a, _) | Expr::Mul(a, _) | Expr::Mod(a, _) | Expr::NonZero(a) => vec![(**a).clone()],
        Expr::Race(n, a) => vec![(**a).clone(), Expr::Read(*n)],
        Expr::Add(a, b) | Expr::Min(a, b) | Expr::Cat(a, b) => {
            vec![(**a).clone(), (**b).clone()]
        }
        Expr::If(c, t, f) => vec![(**c).clone(), (**t).clone(), (**f).clone()],
        Expr::Join(v) | Expr::Unord(v) => {
            let mut out: Vec<Expr> = v.iter().map(|n| Expr::Read(*n)).collect();
            if v.len() > 1 {
                for i in 0..v.len() {
                    let mut w = v.clone();
                    w.remove(i);
                    out.push(if matches!(e, Expr::Join(_)) { Expr::Join(w) } else { Expr::Unord(w) });
                }
            }
            out
        }
    }
}

pub fn shrink(rf: &ReplayFile, budget_runs: usize) -> ReplayFile {
    let mut best = rf.clone();
    let mut runs = 0usize;
    let mut try_cand = |best: &mut ReplayFile, sc: Scenario, dec: Option<Vec<simkit::sched::Decision>>, runs: &mut usize| -> bool {
        if *runs >= budget_runs {
            return false;
        }
        *runs += 1;
        if let Some((msg, known)) = same_failure(rf, &sc, &dec) {
            best.scenario = sc;
            best.decisions = dec;
            best.message = msg;
            best.known = known;
            true
        } else {
            false
        }
    };
    // make sure the input reproduces at all
    if same_failure(rf, &best.scenario, &best.decisions).is_none() {
        return best;
    }
    let mut progress = true;
    while progress && runs < budget_runs {
        progress = false;
        // 1. schedule: none at all, then drop decisions one by one (from the end)
        if best.decisions.as_ref().is_some_and(|d| !d.is_empty()) {
            if try_cand(&mut best.clone(), best.scenario.clone(), Some(vec![]), &mut runs) {
                best.decisions = Some(vec![]);
                progress = true;
            } else {
                let mut i = best.decisions.as_ref().unwrap().len();
                while i > 0 {
                    i -= 1;
                    let mut d = best.decisions.clone().unwrap();
                    d.remove(i);
                    let sc = best.scenario.clone();
                    if try_cand(&mut best, sc, Some(d), &mut runs) {
                        progress = true;
                    }
                }
            }
        }
        // 2. drop ops (from the end)
        let mut i = best.scenario.ops.len();
        while i > 0 {
            i -= 1;
            let mut sc = best.scenario.clone();
            sc.ops.remove(i);
            let d = best.decisions.clone();
            if try_cand(&mut best, sc, d, &mut runs) {
                progress = true;
            }
        }
        // 3. drop session steps
        for oi in 0..best.scenario.ops.len() {
            if let Op::Session { steps, .. } = &best.scenario.ops[oi] {
                let mut si = steps.len();
                while si > 0 {
                    si -= 1;
                    let mut sc = best.scenario.clone();
                    if let Op::Session { steps, .. } = &mut sc.ops[oi] {
                        if si >= steps.len() {
                            continue;
                        }
                        steps.remove(si);
                    }
                    let d = best.decisions.clone();
                    if try_cand(&mut best, sc, d, &mut runs) {
                        progress = true;
                    }
                }
            }
        }
        // 4. simplify expressions
        for ni in 0..best.scenario.program.nodes.len() {
            if matches!(best.scenario.program.nodes[ni].kind, Kind::In | Kind::Ex) {
                continue;
            }
            loop {
                let cur = best.scenario.program.nodes[ni].expr.clone();
                let mut improved = false;
                for cand in sub_exprs(&cur) {
                    let mut sc = best.scenario.clone();
                    sc.program.nodes[ni].expr = cand;
                    let d = best.decisions.clone();
                    if try_cand(&mut best, sc, d, &mut runs) {
                        improved = true;
                        progress = true;
                        break;
                    }
                }
                if !improved {
                    break;
                }
            }
        }
        // 5. drop trailing nodes nobody mentions
        loop {
            let n = best.scenario.program.nodes.len();
            if n <= 1 {
                break;
            }
            let last = (n - 1) as u32;
            if best.scenario.ops.iter().any(|o| op_mentions(o, last)) {
                break;
            }
            let mut sc = best.scenario.clone();
            sc.program.nodes.pop();
            let d = best.decisions.clone();
            if try_cand(&mut best, sc, d, &mut runs) {
                progress = true;
            } else {
                break;
            }
        }
        // 6. simpler configuration
        if best.scenario.cfg.yield_every.is_some() {
            let mut sc = best.scenario.clone();
            sc.cfg.yield_every = None;
            let d = best.decisions.clone();
            if try_cand(&mut best, sc, d, &mut runs) {
                progress = true;
            }
        }
    }
    best
}

pub fn shrink_cmd(args: &[String]) -> i32 {
    let rf: ReplayFile =
        serde_json::from_str(&std::fs::read_to_string(&args[0]).expect("read")).expect("parse");
    let budget = args.get(2).and_then(|s| s.parse().ok()).unwrap_or(3000);
    let out = shrink(&rf, budget);
    std::fs::write(&args[1], serde_json::to_string_pretty(&out).unwrap()).expect("write");
    0
}
