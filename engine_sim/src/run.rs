//! Runs one scenario against the real engine on a paused current-thread
//! runtime under the installed controller, feeding the oracles.

use std::{
    collections::BTreeMap,
    hash::BuildHasherDefault,
    panic::AssertUnwindSafe,
    sync::{Arc, atomic::Ordering},
    time::Duration,
};

use futures::FutureExt;
use fxhash::FxHasher;
use qbice::{
    Config, Engine, Identifiable, SetInputResult, TrackedEngine,
    engine::{EngineOptions, YieldFrequency},
    serialize::Plugin,
    stable_hash::{SeededStableHasherBuilder, Sip128Hasher},
    storage::storage_engine::{
        db_backed::{Configuration, DbBacked, DbBackedFactory},
        in_memory::{InMemoryStorageEngine, InMemoryStorageEngineFactory},
    },
};
use simkit::{
    Rng, pipeline,
    sched::{self, Controller, Decision, Strategy},
    simkv::{Disk, SimKv, SimKvFactory},
};

use crate::{
    model::{Failure, Model},
    program::Val,
    queries::{Ex, Harness, In, query_node, register_all, repair_tfc_node},
    scenario::{Op, RunCfg, Scenario, SchedCfg, SessStep, Storage},
};

#[derive(
    Debug, Clone, Copy, PartialEq, Eq, PartialOrd, Ord, Hash, Default, Identifiable,
)]
pub struct MemCfg;

impl Config for MemCfg {
    type StorageEngine = InMemoryStorageEngine;
    type BuildStableHasher = SeededStableHasherBuilder<Sip128Hasher>;
    type BuildHasher = BuildHasherDefault<FxHasher>;
}

#[derive(Clone, Debug, Default, serde::Serialize)]
pub struct Stats {
    pub epochs: u64,
    pub user_requests: u64,
    pub serves: u64,
    pub serves_old: u64,
    pub executions: u64,
    pub reexec: u64,
    pub c03_judged: u64,
    pub updated_inputs: u64,
    pub hook_events: u64,
    pub yields: u64,
    pub restarts: u64,
    pub drains: u64,
    pub phys_commits: u64,
    pub logical_batches: u64,
    pub crash_prefixes: u64,
    pub multi_batch_commits: u64,
    pub probes: BTreeMap<String, u64>,
    pub faults: BTreeMap<String, u64>,
}

#[derive(Clone, Debug)]
pub struct Outcome {
    pub failure: Option<Failure>,
    pub stats: Stats,
    pub decisions: Vec<Decision>,
    pub trace_hash: u64,
    pub nontrivial: bool,
    pub exposed: Option<String>,
    pub suspensions_seen: u64,
    pub fault_fired: bool,
}

pub fn apply_update(cur: Option<&Val>, delta: i64) -> Val {
    match cur {
        None => vec![delta],
        Some(c) if c.is_empty() => vec![delta],
        Some(c) => {
            let mut c = c.clone();
            c[0] = c[0].wrapping_add(delta).rem_euclid(4);
            c
        }
    }
}

pub fn make_controller(cfg: &RunCfg, decisions: Option<&[Decision]>) -> Controller {
    if let Some(d) = decisions {
        return Controller::replaying(d);
    }
    let rng = Rng::new(cfg.sched_seed).split(simkit::label("schedule"));
    match &cfg.sched {
        SchedCfg::Off => Controller::new(rng, Strategy::Off),
        SchedCfg::Uniform { num, den, k, site_salt, preempt } => {
            let mut c = Controller::new(
                rng,
                Strategy::Uniform { num: *num, den: *den, k: *k },
            );
            c.site_salt = *site_salt;
            c.preempt_on = *preempt;
            c
        }
        SchedCfg::Pct { points, burst, preempt } => {
            let mut c = Controller::new(
                rng,
                Strategy::Pct { points: points.clone(), burst: *burst },
            );
            c.preempt_on = *preempt;
            c
        }
    }
}

pub trait SimCfg: Config {
    fn open(
        cfg: &RunCfg,
        h: &Arc<Harness>,
        env: &RunEnv,
    ) -> impl Future<Output = Engine<Self>>;
}

/// Things that outlive one engine instance within a run (the simulated disk)
#[derive(Default)]
pub struct RunEnv {
    pub disk: Option<Disk>,
    /// scratch directory of a real backend
    pub dir: Option<std::path::PathBuf>,
}

macro_rules! real_cfg {
    ($name:ident, $db:ty, $open:expr) => {
        #[derive(
            Debug, Clone, Copy, PartialEq, Eq, PartialOrd, Ord, Hash, Default, Identifiable,
        )]
        pub struct $name;

        impl Config for $name {
            type StorageEngine = DbBacked<$db>;
            type BuildStableHasher = SeededStableHasherBuilder<Sip128Hasher>;
            type BuildHasher = BuildHasherDefault<FxHasher>;
        }

        impl SimCfg for $name {
            async fn open(cfg: &RunCfg, h: &Arc<Harness>, env: &RunEnv) -> Engine<Self> {
                let cache_cap = match cfg.storage {
                    Storage::Real { cache_cap, .. } => cache_cap,
                    _ => 8,
                };
                let dir = env.dir.clone().expect("scratch directory");
                let mut e = Engine::<$name>::new_with_options()
                    .serialization_plugin(Plugin::default())
                    .storage_engine_factory(
                        DbBackedFactory::builder()
                            .configuration(Configuration::builder().cache_capacity(cache_cap).build())
                            .db_factory($open(dir))
                            .build(),
                    )
                    .stable_hasher(SeededStableHasherBuilder::<Sip128Hasher>::new(0))
                    .options(engine_options(cfg))
                    .build()
                    .await
                    .expect("open real backend");
                register_all(&mut e, h);
                e
            }
        }
    };
}

real_cfg!(RocksCfg, qbice::storage::kv_database::rocksdb::RocksDB, qbice::storage::kv_database::rocksdb::RocksDB::factory);
real_cfg!(FjallCfg, qbice::storage::kv_database::fjall::Fjall, qbice::storage::kv_database::fjall::Fjall::factory);

#[derive(
    Debug, Clone, Copy, PartialEq, Eq, PartialOrd, Ord, Hash, Default, Identifiable,
)]
pub struct DbCfg;

impl Config for DbCfg {
    type StorageEngine = DbBacked<SimKv>;
    type BuildStableHasher = SeededStableHasherBuilder<Sip128Hasher>;
    type BuildHasher = BuildHasherDefault<FxHasher>;
}

impl SimCfg for DbCfg {
    async fn open(cfg: &RunCfg, h: &Arc<Harness>, env: &RunEnv) -> Engine<Self> {
        let (cache_cap, ser_workers) = match cfg.storage {
            Storage::Db { cache_cap, ser_workers, .. } => (cache_cap, ser_workers),
            _ => (8, 1),
        };
        let mut e = Engine::<DbCfg>::new_with_options()
            .serialization_plugin(Plugin::default())
            .storage_engine_factory(
                DbBackedFactory::builder()
                    .configuration(
                        Configuration::builder()
                            .cache_capacity(cache_cap)
                            .serialization_workers(ser_workers)
                            .build(),
                    )
                    .db_factory(SimKvFactory(env.disk.clone().expect("disk")))
                    .build(),
            )
            .stable_hasher(SeededStableHasherBuilder::<Sip128Hasher>::new(0))
            .options(engine_options(cfg))
            .build()
            .await
            .unwrap();
        register_all(&mut e, h);
        e
    }
}

fn engine_options(cfg: &RunCfg) -> EngineOptions {
    EngineOptions::builder()
        .yield_frequency(match cfg.yield_every {
            Some(n) => YieldFrequency::EveryNQuery(n),
            None => YieldFrequency::Never,
        })
        .build()
}

impl SimCfg for MemCfg {
    async fn open(cfg: &RunCfg, h: &Arc<Harness>, _env: &RunEnv) -> Engine<Self> {
        let mut e = Engine::<MemCfg>::new_with_options()
            .serialization_plugin(Plugin::default())
            .storage_engine_factory(InMemoryStorageEngineFactory)
            .stable_hasher(SeededStableHasherBuilder::<Sip128Hasher>::new(0))
            .options(engine_options(cfg))
            .build()
            .await
            .unwrap();
        register_all(&mut e, h);
        e
    }
}

pub(crate) struct Runner<'a, C: SimCfg> {
    pub(crate) sc: &'a Scenario,
    pub(crate) h: Arc<Harness>,
    pub(crate) env: RunEnv,
    pub(crate) engine: Option<Arc<Engine<C>>>,
    pub(crate) tracked: Option<TrackedEngine<C>>,
    pub(crate) model: Model<'a>,
    pub(crate) cursor: usize,
    pub(crate) stats: Stats,
    /// committed input states S_0 (nothing set), S_1, ...
    pub(crate) input_history: Vec<std::collections::HashMap<u32, Val>>,
    /// suspension points counted on the fault target of this run
    pub(crate) suspensions_seen: u64,
    pub(crate) fault_fired: bool,
    /// a concurrent request may end with the injected executor panic
    pub(crate) tolerate_injected: bool,
    /// inputs whose set_input call was cancelled: (node, old, new)
    pub(crate) uncertain_inputs: Vec<(u32, Option<Val>, Val)>,
    pub(crate) pipeline_gap: Option<String>,
}

pub(crate) fn fail(class: &str, msg: String) -> Failure {
    Failure { class: class.into(), msg, known: None }
}

impl<'a, C: SimCfg> Runner<'a, C> {
    pub(crate) fn drain(&mut self) -> Result<(), Failure> {
        loop {
            let (evs, invs) = {
                let st = self.h.st.lock();
                if self.cursor >= st.events.len() {
                    if let Some(o) = &st.overlap {
                        return Err(fail("single_flight", o.clone()));
                    }
                    return Ok(());
                }
                (st.events[self.cursor..].to_vec(), st.invs.clone())
            };
            for ev in &evs {
                if std::env::var("VERIF_TRACE").is_ok() {
                    match ev {
                        crate::queries::Ev::Enter(i) => eprintln!("  enter node {}", invs[*i].node),
                        crate::queries::Ev::Exit(i) => eprintln!("  exit  node {} = {:?}", invs[*i].node, invs[*i].result),
                        crate::queries::Ev::Abort(i) => eprintln!("  abort node {}", invs[*i].node),
                        crate::queries::Ev::Outside(i) => eprintln!("  node {} outside its domain", invs[*i].node),
                        crate::queries::Ev::ReadStart(i, d) => eprintln!("  node {} starts reading {}", invs[*i].node, d),
                        crate::queries::Ev::Read(i, d, v) => eprintln!("  node {} read {} = {:?}", invs[*i].node, d, v),
                        crate::queries::Ev::Hook(s, a, b) => eprintln!("  hook {s} {a} {b}"),
                    }
                }
                self.cursor += 1;
                self.model.on_event(ev, &invs)?;
            }
        }
    }

    pub(crate) fn engine(&self) -> &Arc<Engine<C>> { self.engine.as_ref().unwrap() }

    pub(crate) async fn ensure_tracked(&mut self, fresh: bool) {
        if fresh || self.tracked.is_none() {
            self.tracked = None;
            self.tracked = Some(self.engine().clone().tracked().await);
        }
    }

    /// nodes that are undefined from scratch (a partial node outside its
    /// domain) are never requested
    pub(crate) fn askable(&self, root: u32) -> bool { !crate::program::is_undef(&self.model.fs(root)) }

    pub(crate) async fn user_query(&mut self, root: u32, ctx: &str) -> Result<(), Failure> {
        if !self.askable(root) {
            return Ok(());
        }
        self.model.user_request(root);
        self.stats.user_requests += 1;
        let te = self.tracked.as_ref().unwrap();
        let v = query_node(te, &self.sc.program, root).await;
        self.drain()?;
        self.model.request_end();
        self.model.serve(root, &v, ctx)
    }

    pub(crate) async fn session(&mut self, steps: &[SessStep], commit: bool) -> Result<(), Failure> {
        self.session_faulted(steps, commit, None).await
    }

    /// A session, optionally with one of its calls cancelled at its n-th
    /// suspension.
    pub(crate) async fn session_faulted(
        &mut self,
        steps: &[SessStep],
        commit: bool,
        cancel: Option<(crate::scenario::Target, u64)>,
    ) -> Result<(), Failure> {
        use crate::scenario::Target;
        use simkit::sched::{CancelAt, Cancelled};
        self.tracked = None;
        let open_n = match cancel {
            Some((Target::OpenSession, n)) => Some(n),
            _ => None,
        };
        let mut s = if let Some(n) = open_n {
            // a reader is still active while the session is being opened, so
            // the call really waits for the phase lock
            {
                let eng = self.engine().clone();
                tokio::spawn(async move {
                    let te = eng.tracked().await;
                    for _ in 0..3 {
                        tokio::task::yield_now().await;
                    }
                    drop(te);
                });
                tokio::task::yield_now().await;
            }
            let eng = self.engine().clone();
            match CancelAt::new(async move { eng.input_session().await }, n).await {
                Cancelled::Completed(s, seen) => {
                    self.suspensions_seen = seen;
                    s
                }
                Cancelled::Dropped(seen) => {
                    self.suspensions_seen = seen;
                    self.fault_fired = true;
                    // the call was abandoned: no session object exists.  The
                    // engine must stay usable; the history simply goes on.
                    self.quiesce().await;
                    return self.drain();
                }
            }
        } else {
            self.engine().input_session().await
        };
        self.h.epoch.fetch_add(1, Ordering::SeqCst);
        self.model.begin_epoch();
        self.stats.epochs += 1;
        for step in steps {
            match step {
                SessStep::Set { node, val } => {
                    let expect = match self.model.inputs.get(node) {
                        None => SetInputResult::Fresh,
                        Some(c) if c == val => SetInputResult::Unchanged,
                        Some(_) => SetInputResult::Updated,
                    };
                    let step_idx = steps.iter().position(|x| std::ptr::eq(x, step)).unwrap() as u32;
                    let r = if let Some((Target::SessionStep(i), n)) = cancel
                        && i == step_idx
                    {
                        match CancelAt::new(s.set_input(In(*node), val.clone()), n).await {
                            Cancelled::Completed(r, seen) => {
                                self.suspensions_seen = seen;
                                r
                            }
                            Cancelled::Dropped(seen) => {
                                self.suspensions_seen = seen;
                                self.fault_fired = true;
                                self.uncertain_inputs.push((*node, self.model.inputs.get(node).cloned(), val.clone()));
                                continue;
                            }
                        }
                    } else {
                        s.set_input(In(*node), val.clone()).await
                    };
                    if r != expect {
                        return Err(fail(
                            "wrong_set_input_result",
                            format!("set_input(In({node}), {val:?}) = {r:?}, model says {expect:?}"),
                        ));
                    }
                    if r == SetInputResult::Updated {
                        self.stats.updated_inputs += 1;
                    }
                    self.model.inputs.insert(*node, val.clone());
                    self.model.clear_memo();
                }
                SessStep::Update { node, delta } => {
                    let cur = self.model.inputs.get(node).cloned();
                    let newv = apply_update(cur.as_ref(), *delta);
                    let expect = match &cur {
                        None => SetInputResult::Fresh,
                        Some(c) if *c == newv => SetInputResult::Unchanged,
                        Some(_) => SetInputResult::Updated,
                    };
                    let d = *delta;
                    let seen: Arc<parking_lot::Mutex<Option<Option<Val>>>> =
                        Arc::new(parking_lot::Mutex::new(None));
                    let seen2 = seen.clone();
                    let r = s
                        .update(In(*node), move |c: Option<Val>| {
                            *seen2.lock() = Some(c.clone());
                            apply_update(c.as_ref(), d)
                        })
                        .await;
                    let seen = seen.lock().clone();
                    if seen != Some(cur.clone()) {
                        return Err(fail(
                            "wrong_value",
                            format!("update(In({node})) saw current value {seen:?}, model says {cur:?}"),
                        ));
                    }
                    if r != expect {
                        return Err(fail(
                            "wrong_set_input_result",
                            format!("update(In({node}), +{delta}) = {r:?}, model says {expect:?}"),
                        ));
                    }
                    if r == SetInputResult::Updated {
                        self.stats.updated_inputs += 1;
                    }
                    self.model.inputs.insert(*node, newv);
                    self.model.clear_memo();
                }
                SessStep::Refresh => {
                    self.h.refresh_id.fetch_add(1, Ordering::SeqCst);
                    self.h.in_refresh.store(true, Ordering::SeqCst);
                    s.refresh::<Ex>().await;
                    self.h.in_refresh.store(false, Ordering::SeqCst);
                    self.model.refresh();
                }
            }
        }
        if commit {
            if let Some((Target::Commit, n)) = cancel {
                match CancelAt::new(s.commit(), n).await {
                    Cancelled::Completed((), seen) => self.suspensions_seen = seen,
                    Cancelled::Dropped(seen) => {
                        self.suspensions_seen = seen;
                        self.fault_fired = true;
                    }
                }
            } else {
                s.commit().await;
            }
        } else {
            drop(s);
        }
        if cancel.is_some() {
            self.quiesce().await;
            self.resolve_uncertain_inputs().await?;
        }
        self.input_history.push(self.model.inputs.clone());
        self.model.classify_epoch();
        self.drain()?;
        if self.sc.cfg.strict {
            self.warm_up().await?;
        }
        Ok(())
    }

    /// strict mode: at the start of each epoch run the engine's own
    /// firewall-repair pass (`repair_transitive_firewall_callees`) for every
    /// node computed so far.  Every firewall that has a caller is in the
    /// firewall set of that caller, so afterwards every such firewall has
    /// been repaired by a RepairFirewall caller, its backward projections
    /// have run and dirty propagation is complete: by the engine's own
    /// design every later request is covered.
    pub(crate) async fn warm_up(&mut self) -> Result<(), Failure> {
        self.ensure_tracked(true).await;
        // ascending: when the pass of node m runs, the passes of all n < m
        // are done, so every node a firewall of T(m) may newly read has a
        // fully repaired closure
        for n in 0..self.sc.program.len() {
            if self.model.execs.contains_key(&n) {
                self.model.repair_tfc_request(n);
                let te = self.tracked.as_ref().unwrap();
                repair_tfc_node(te, &self.sc.program, n).await;
                self.drain()?;
                self.model.request_end();
            }
        }
        self.tracked = None;
        Ok(())
    }

    async fn step(&mut self, op: &Op) -> Result<(), Failure> {
        match op {
            Op::SetWorld { node, val } => {
                self.h.world.lock().insert(*node, val.clone());
                self.model.set_world(*node, val.clone());
                Ok(())
            }
            Op::Session { steps, commit } => self.session(steps, *commit).await,
            Op::Query { root, new_tracked } => {
                self.ensure_tracked(*new_tracked).await;
                self.user_query(*root, "user").await
            }
            Op::RepairTfc { root } => {
                self.ensure_tracked(false).await;
                self.model.repair_tfc_request(*root);
                let te = self.tracked.as_ref().unwrap();
                repair_tfc_node(te, &self.sc.program, *root).await;
                self.drain()?;
                self.model.request_end();
                Ok(())
            }
            Op::Restart => self.restart().await,
            Op::Drain => {
                if self.env.disk.is_some() {
                    pipeline::drain();
                    self.stats.drains += 1;
                }
                Ok(())
            }
            Op::Concurrent { roots, share_tracked } => {
                self.concurrent(roots, *share_tracked, None).await
            }
            Op::ReadersWriter { sessions, readers, detach } => {
                self.readers_writer(sessions, readers, *detach).await
            }
            Op::Faulted { op, fault } => self.faulted(op, fault).await,
        }
    }

    /// clean shutdown of the current engine instance (inside the runtime)
    async fn shutdown(&mut self) {
        self.tracked = None;
        if let Some(e) = self.engine.take() {
            // detached guard futures / dropped sessions may still hold the
            // engine; let them finish
            let mut spins = 0u32;
            while Arc::strong_count(&e) > 1 && spins < 100_000 {
                tokio::task::yield_now().await;
                spins += 1;
            }
            pipeline::open_forever();
            drop(e);
            if self.env.disk.is_some() {
                let c = pipeline::counters();
                if (c.created != c.submitted || c.commit_processed != c.submitted)
                    && self.pipeline_gap.is_none()
                {
                    self.pipeline_gap = Some(format!(
                        "after shutdown: {} write batches created, {} submitted, {} reached the commit stage",
                        c.created, c.submitted, c.commit_processed
                    ));
                }
            }
        }
    }

    async fn open(&mut self) {
        if self.env.disk.is_some() {
            pipeline::reset(true);
        } else if self.env.dir.is_some() {
            pipeline::reset(false);
        }
        let e = C::open(&self.sc.cfg, &self.h, &self.env).await;
        self.engine = Some(Arc::new(e));
    }

    async fn restart(&mut self) -> Result<(), Failure> {
        self.shutdown().await;
        self.stats.restarts += 1;
        self.open().await;
        Ok(())
    }

    /// C08: every prefix of the physical commit log is a crash state.
    async fn check_crash_prefixes(&mut self) -> Result<(), Failure> {
        let Some(disk) = self.env.disk.clone() else { return Ok(()) };
        let m = disk.log_len();
        {
            let d = disk.0.lock();
            self.stats.phys_commits += m as u64;
            for pc in &d.log {
                self.stats.logical_batches += pc.logical.len() as u64;
                if pc.logical.len() > 1 {
                    self.stats.multi_batch_commits += 1;
                }
            }
        }
        // The recovered engines run with a free-running write-behind
        // pipeline (real threads): which path a request takes (entry still
        // pinned or already flushed) depends on their timing. No schedule is
        // explored here, so the controller is taken out: nothing of this
        // phase enters the recorded decisions.
        let saved = simkit::sched::take();
        let mut k_prev = 0usize;
        let mut res = Ok(());
        for j in 0..=m {
            let dj = disk.prefix(j, self.sc.cfg.sched_seed ^ j as u64);
            match self.check_recovered(dj, j, m, k_prev).await {
                Ok(k) => k_prev = k,
                Err(e) => {
                    res = Err(e);
                    break;
                }
            }
            self.stats.crash_prefixes += 1;
        }
        if let Some(c) = saved {
            simkit::sched::install(c);
        }
        res
    }

    async fn check_recovered(
        &mut self,
        disk: Disk,
        j: usize,
        m: usize,
        k_prev: usize,
    ) -> Result<usize, Failure> {
        self.check_recovered_env(RunEnv { disk: Some(disk), dir: None }, j, m, k_prev).await
    }

    pub(crate) async fn check_recovered_env(
        &mut self,
        env: RunEnv,
        j: usize,
        m: usize,
        k_prev: usize,
    ) -> Result<usize, Failure> {
        let prog = &self.sc.program;
        let h2 = Harness::new(prog.clone());
        *h2.world.lock() = self.h.world.lock().clone();
        pipeline::reset(false);
        let e = Arc::new(C::open(&self.sc.cfg, &h2, &env).await);
        let te = e.clone().tracked().await;
        // which committed session do the recovered inputs belong to?
        let mut seen: std::collections::HashMap<u32, Val> = std::collections::HashMap::new();
        for n in prog.of_kind(crate::program::Kind::In) {
            let v = query_node(&te, prog, n).await;
            if v != vec![crate::queries::UNSET_INPUT] {
                seen.insert(n, v);
            }
        }
        if j == m && Some(&seen) != self.input_history.last() {
            return Err(fail(
                "lost_after_clean_shutdown",
                format!(
                    "after a clean shutdown the store shows the inputs {seen:?}, the last committed session left {:?}",
                    self.input_history.last()
                ),
            ));
        }
        let k = (k_prev..self.input_history.len()).find(|k| self.input_history[*k] == seen);
        let Some(k) = k else {
            return Err(fail(
                "crash_inputs_not_a_session",
                format!(
                    "crash after physical commit {j}/{m}: recovered inputs {seen:?} are not the inputs of any committed session >= {k_prev} (history {:?})",
                    self.input_history
                ),
            ));
        };
        if k > 0 {
            let mut model = Model::new(prog);
            model.check_c03 = false;
            model.inputs = seen.clone();
            model.world = self.model.world.clone();
            model.epoch = 1;
            // the engine's own firewall-repair pass for everything stored
            for n in 0..prog.len() {
                repair_tfc_node(&te, prog, n).await;
            }
            for n in (0..prog.len()).rev() {
                let v = query_node(&te, prog, n).await;
                let want = model.fs(n);
                if v != want {
                    return Err(fail(
                        "crash_wrong_value",
                        format!(
                            "crash after physical commit {j}/{m} (inputs of session {k}): node {n} ({:?}) = {v:?}, from-scratch = {want:?}",
                            prog.kind(n)
                        ),
                    ));
                }
            }
            // the answers must stay right when the recovered engine is used
            // further: one more session that changes every input (a store in
            // which, say, a node is present without its backward edges
            // answers correctly until then) - added after seeded change C08-5
            drop(te);
            {
                let mut s = e.clone().input_session().await;
                let mut order: Vec<(&u32, &Val)> = seen.iter().collect();
                order.sort();
                for (n, v) in order {
                    let mut nv = v.clone();
                    nv.insert(0, nv.first().copied().unwrap_or(0).wrapping_add(1));
                    nv.truncate(3);
                    if nv == *v {
                        nv = vec![9];
                    }
                    s.set_input(In(*n), nv.clone()).await;
                    model.inputs.insert(*n, nv);
                }
                s.commit().await;
                model.clear_memo();
                model.epoch = 2;
            }
            let te = e.clone().tracked().await;
            for n in 0..prog.len() {
                repair_tfc_node(&te, prog, n).await;
            }
            for n in (0..prog.len()).rev() {
                let v = query_node(&te, prog, n).await;
                let want = model.fs(n);
                if v != want {
                    return Err(fail(
                        "crash_wrong_value",
                        format!(
                            "crash after physical commit {j}/{m} (inputs of session {k}), then one more session that changes every input: node {n} ({:?}) = {v:?}, from-scratch = {want:?}",
                            prog.kind(n)
                        ),
                    ));
                }
            }
            drop(te);
        } else {
            drop(te);
        }
        let mut spins = 0u32;
        while Arc::strong_count(&e) > 1 && spins < 100_000 {
            tokio::task::yield_now().await;
            spins += 1;
        }
        drop(e);
        Ok(k)
    }

    async fn run(&mut self) -> Result<(), Failure> {
        self.open().await;
        for op in &self.sc.ops {
            self.step(op).await?;
        }
        // final sweep: every node, top down, on a fresh tracked engine
        if self.model.epoch > 0 {
            self.ensure_tracked(true).await;
            for n in (0..self.sc.program.len()).rev() {
                // (minimised scenarios may leave inputs unset: nodes that can
                // reach one are not asked)
                let mut stack = vec![n];
                let mut seen = std::collections::HashSet::new();
                let mut unset = false;
                while let Some(x) = stack.pop() {
                    if !seen.insert(x) {
                        continue;
                    }
                    if self.sc.program.kind(x) == crate::program::Kind::In && !self.model.inputs.contains_key(&x) {
                        unset = true;
                        break;
                    }
                    stack.extend(self.sc.program.static_deps(x));
                }
                if unset {
                    continue;
                }
                self.user_query(n, "final sweep").await?;
            }
        }
        if self.sc.cfg.crash_check {
            self.shutdown().await;
            self.check_crash_prefixes().await?;
        }
        Ok(())
    }
}

fn run_generic<C: SimCfg>(sc: &Scenario, decisions: Option<&[Decision]>) -> Outcome {
    run_generic_in::<C>(sc, decisions, None, None)
}

/// `real_dir`: scratch directory of a real backend.  `recover_only`: do not
/// run the history, only open the store found there and check it against the
/// committed input states of the history (C08, after a kill -9).
pub(crate) fn run_generic_in<C: SimCfg>(
    sc: &Scenario,
    decisions: Option<&[Decision]>,
    real_dir: Option<std::path::PathBuf>,
    recover_only: Option<(Vec<std::collections::HashMap<u32, Val>>, bool)>,
) -> Outcome {
    simkit::panics::install();
    crate::queries::install_hooks();
    let _ = simkit::panics::drain();
    let rt = tokio::runtime::Builder::new_current_thread()
        .enable_time()
        .start_paused(true)
        .build()
        .unwrap();
    sched::install(make_controller(&sc.cfg, decisions));
    let h = Harness::new(sc.program.clone());
    crate::queries::set_event_sink(Some(h.clone()));
    let mut model = Model::new(&sc.program);
    model.check_c03 = sc.cfg.check_c03 && !sc.cfg.no_values;
    model.cyclic = sc.cfg.cyclic;
    model.no_values = sc.cfg.no_values;
    let mut runner = Runner::<C> {
        sc,
        h: h.clone(),
        env: RunEnv {
            disk: match sc.cfg.storage {
                Storage::Db { group_max, .. } => Some(Disk::new(sc.cfg.sched_seed, group_max)),
                _ => None,
            },
            dir: real_dir.clone(),
        },
        input_history: vec![std::collections::HashMap::new()],
        suspensions_seen: 0,
        fault_fired: false,
        tolerate_injected: false,
        uncertain_inputs: Vec::new(),
        pipeline_gap: None,
        engine: None,
        tracked: None,
        model,
        cursor: 0,
        stats: Stats::default(),
    };
    let res: Result<(), Failure> = rt.block_on(async {
        let fut = AssertUnwindSafe(async {
            if let Some((hist, clean)) = &recover_only {
                runner.input_history = hist.clone();
                let (j, m) = if *clean { (1, 1) } else { (0, 1) };
                // the world of external inputs as the history leaves it
                for op in &sc.ops {
                    if let Op::SetWorld { node, val } = op {
                        runner.h.world.lock().insert(*node, val.clone());
                        runner.model.world.insert(*node, val.clone());
                    }
                }
                let env = RunEnv { disk: None, dir: runner.env.dir.clone() };
                match runner.check_recovered_env(env, j, m, 0).await {
                    Ok(k) => {
                        let last = runner.input_history.len() - 1;
                        let key = if k == 0 {
                            "recovered_empty_store"
                        } else if k == last {
                            "recovered_last_session"
                        } else {
                            "recovered_earlier_session"
                        };
                        *runner.stats.probes.entry(key.into()).or_insert(0) += 1;
                        Ok(())
                    }
                    Err(e) => Err(e),
                }
            } else {
                runner.run().await
            }
        })
        .catch_unwind();
        let r = match tokio::time::timeout(Duration::from_secs(3600), fut).await {
            Err(_) => Err(fail(
                "hang",
                "no task runnable and the scenario has not completed (quiescence detector)".into(),
            )),
            Ok(Err(p)) => {
                let msg = p
                    .downcast_ref::<&str>()
                    .map(|s| (*s).to_string())
                    .or_else(|| p.downcast_ref::<String>().cloned())
                    .unwrap_or_else(|| "<non-string payload>".into());
                Err(fail("panic", format!("panic reached the harness: {msg}")))
            }
            Ok(Ok(r)) => r,
        };
        // clean shutdown inside the runtime
        runner.shutdown().await;
        r
    });
    drop(rt);
    crate::queries::set_event_sink(None);
    let ctl = sched::take().unwrap();
    let panics = simkit::panics::drain();
    let mut failure = res.err();
    if failure.is_none()
        && let Some(g) = &runner.pipeline_gap
    {
        failure = Some(fail("pipeline_gap", g.clone()));
    }
    // the cycle payload of the engine is a non-string panic
    let panics: Vec<_> = panics
        .into_iter()
        .filter(|p| !(sc.cfg.cyclic && !p.string_payload))
        .collect();
    if failure.is_none() && !panics.is_empty() {
        let p = &panics[0];
        failure = Some(fail(
            "panic",
            format!("unexpected panic in thread {} at {}: {}", p.thread, p.location, p.message),
        ));
    }
    if let Some(f) = &mut failure {
        if f.known.is_none() && f.class != "wrong_value" {
            // failures after an exposure are consequences of KF-C01-1 only
            // for value oracles; structural failures stay violations
        }
    }
    let m = &runner.model;
    let mut stats = runner.stats.clone();
    stats.serves = m.serves;
    stats.serves_old = m.serves_old;
    stats.reexec = m.reexec;
    stats.c03_judged = m.c03_judged;
    stats.executions = h.st.lock().invs.len() as u64;
    stats.hook_events = ctl.events;
    stats.yields = ctl.yields;
    for (k, v) in &ctl.hits {
        stats.probes.insert((*k).to_string(), *v);
    }
    let base = stats.epochs >= 2 && stats.serves_old > 0 && stats.updated_inputs > 0;
    let has = |f: &dyn Fn(&Op) -> bool| sc.ops.iter().any(|o| f(o));
    let probe = |k: &str| stats.probes.get(k).copied().unwrap_or(0);
    let nontrivial = if has(&|o| matches!(o, Op::ReadersWriter { .. })) {
        probe("c04_lives_overlapping_session") > 0
    } else if has(&|o| matches!(o, Op::Faulted { .. })) {
        runner.fault_fired
    } else if has(&|o| matches!(o, Op::Concurrent { .. })) {
        base && (probe("cl_wait_existing") + probe("scc_wait") > 0)
    } else if sc.cfg.cyclic {
        m.cyclic_epochs > m.ambiguous_epochs
    } else if sc.cfg.crash_check {
        base && stats.phys_commits >= 2
    } else if has(&|o| matches!(o, Op::Restart)) {
        base && stats.restarts > 0
    } else {
        base
    };
    Outcome {
        failure,
        stats,
        decisions: ctl.decisions,
        trace_hash: ctl.trace_hash,
        nontrivial,
        exposed: m.exposed.clone(),
        suspensions_seen: runner.suspensions_seen,
        fault_fired: runner.fault_fired,
    }
}

/// the committed input states S_0, S_1, ... of a history, computed without
/// running it
pub fn static_input_history(sc: &Scenario) -> Vec<std::collections::HashMap<u32, Val>> {
    let mut cur: std::collections::HashMap<u32, Val> = std::collections::HashMap::new();
    let mut out = vec![cur.clone()];
    for op in &sc.ops {
        if let Op::Session { steps, .. } = op {
            for st in steps {
                match st {
                    SessStep::Set { node, val } => {
                        cur.insert(*node, val.clone());
                    }
                    SessStep::Update { node, delta } => {
                        let v = apply_update(cur.get(node), *delta);
                        cur.insert(*node, v);
                    }
                    SessStep::Refresh => {}
                }
            }
            out.push(cur.clone());
        }
    }
    out
}

/// run (or recover) on a shipped backend in `dir`
pub fn run_real(
    sc: &Scenario,
    dir: &std::path::Path,
    recover_only: Option<(Vec<std::collections::HashMap<u32, Val>>, bool)>,
) -> Outcome {
    let backend = match &sc.cfg.storage {
        Storage::Real { backend, .. } => backend.clone(),
        _ => "rocksdb".into(),
    };
    if backend == "fjall" {
        run_generic_in::<FjallCfg>(sc, None, Some(dir.to_path_buf()), recover_only)
    } else {
        run_generic_in::<RocksCfg>(sc, None, Some(dir.to_path_buf()), recover_only)
    }
}

/// Restrict the calling thread to `n` CPUs (`available_parallelism()` of the
/// engine code running on it follows) and return the previous mask.
fn set_cpus(n: Option<u32>) -> Option<libc::cpu_set_t> {
    let n = n?;
    unsafe {
        let mut old: libc::cpu_set_t = std::mem::zeroed();
        if libc::sched_getaffinity(0, std::mem::size_of::<libc::cpu_set_t>(), &mut old) != 0 {
            return None;
        }
        let mut new: libc::cpu_set_t = std::mem::zeroed();
        let mut left = n;
        for cpu in 0..libc::CPU_SETSIZE as usize {
            if left > 0 && libc::CPU_ISSET(cpu, &old) {
                libc::CPU_SET(cpu, &mut new);
                left -= 1;
            }
        }
        if libc::sched_setaffinity(0, std::mem::size_of::<libc::cpu_set_t>(), &new) != 0 {
            return None;
        }
        Some(old)
    }
}

fn restore_cpus(old: Option<libc::cpu_set_t>) {
    if let Some(old) = old {
        unsafe {
            libc::sched_setaffinity(0, std::mem::size_of::<libc::cpu_set_t>(), &old);
        }
    }
}

pub fn run_scenario(sc: &Scenario, decisions: Option<&[Decision]>) -> Outcome {
    let old = set_cpus(sc.cfg.cpus);
    let out = match sc.cfg.storage {
        Storage::Mem => run_generic::<MemCfg>(sc, decisions),
        Storage::Db { .. } => run_generic::<DbCfg>(sc, decisions),
        Storage::Real { .. } => panic!("real backends run through run_real"),
    };
    restore_cpus(old);
    let mut out = out;
    if let Some(f) = out.failure.as_mut() {
        // KF-C06-1: a dependency cycle that passes through a firewall
        if f.known.is_none() && sc.cfg.cyclic && sc.program.static_cycle_through_firewall() {
            f.known = Some("KF-C06-1".into());
        }
    }
    out
}
