//! The tiny query-program language shared by the harness executors (running
//! inside the real engine) and the from-scratch oracle.

use std::{future::Future, pin::Pin};

use serde::{Deserialize, Serialize};

pub type Val = Vec<i64>;
pub type BoxFut<'a, T> = Pin<Box<dyn Future<Output = T> + Send + 'a>>;

#[derive(Clone, Copy, Debug, PartialEq, Eq, Hash, Serialize, Deserialize)]
pub enum Kind {
    In,
    Ex,
    Nm,
    Fw,
    Pj,
}

#[derive(Clone, Debug, PartialEq, Eq, Hash, Serialize, Deserialize)]
pub enum Expr {
    Const(Val),
    Read(u32),
    /// `[v[i % len]]`, `[0]` for an empty vector
    Idx(Box<Expr>, u32),
    Add(Box<Expr>, Box<Expr>),
    Mul(Box<Expr>, i64),
    /// element-wise `rem_euclid(k)`; absorbs changes
    Mod(Box<Expr>, i64),
    Min(Box<Expr>, Box<Expr>),
    Cat(Box<Expr>, Box<Expr>),
    /// `if first(cond) != 0 { then } else { else }`: data-dependent reads
    If(Box<Expr>, Box<Expr>, Box<Expr>),
    /// concurrent reads (`join_all`); result = element-wise sum
    Join(Vec<u32>),
    /// reads inside an unordered callee group; result = element-wise sum
    Unord(Vec<u32>),
    /// `select!`-like: the read of the node runs alongside the evaluation of
    /// the expression and is dropped, wherever it is, when the expression is
    /// done (an executor abandoning a sub-query); result = the expression
    Race(u32, Box<Expr>),
    /// partial executor: the value of the expression if its first element is
    /// not zero; outside that domain the executor panics (the from-scratch
    /// model yields `UNDEF`). Programs only read such nodes behind a guard
    /// (`If(g, Read(p), ..)` with `p` defined whenever `g` is not zero), the
    /// pattern of a division guarded by a test of the divisor.
    NonZero(Box<Expr>),
}

/// the from-scratch "value" of a node evaluated outside its domain
pub const UNDEF: i64 = i64::MIN;

pub fn is_undef(v: &Val) -> bool { v.len() == 1 && v[0] == UNDEF }

#[derive(Clone, Debug, PartialEq, Eq, Hash, Serialize, Deserialize)]
pub struct Node {
    pub kind: Kind,
    /// ignored for `In` and `Ex`
    pub expr: Expr,
}

#[derive(Clone, Debug, PartialEq, Eq, Hash, Serialize, Deserialize)]
pub struct Program {
    pub nodes: Vec<Node>,
}

impl Program {
    pub fn kind(&self, n: u32) -> Kind { self.nodes[n as usize].kind }
    pub fn len(&self) -> u32 { self.nodes.len() as u32 }
    pub fn of_kind(&self, k: Kind) -> Vec<u32> {
        (0..self.len()).filter(|n| self.kind(*n) == k).collect()
    }
    /// static (syntactic) read targets of a node
    pub fn static_deps(&self, n: u32) -> Vec<u32> {
        let mut out = Vec::new();
        if matches!(self.kind(n), Kind::In | Kind::Ex) {
            return out;
        }
        collect_reads(&self.nodes[n as usize].expr, &mut out);
        out
    }
}

impl Program {
    /// Is there a firewall that can reach itself through the static read
    /// targets? (identification of the known finding KF-C06-1: a dependency
    /// cycle that passes through a firewall)
    pub fn static_cycle_through_firewall(&self) -> bool {
        for f in self.of_kind(Kind::Fw) {
            let mut seen = std::collections::HashSet::new();
            let mut work = self.static_deps(f);
            while let Some(m) = work.pop() {
                if m == f {
                    return true;
                }
                if seen.insert(m) {
                    work.extend(self.static_deps(m));
                }
            }
        }
        false
    }
}

fn collect_reads(e: &Expr, out: &mut Vec<u32>) {
    match e {
        Expr::Const(_) => {}
        Expr::Read(n) => out.push(*n),
        Expr::Idx(a, _) | Expr::Mul(a, _) | Expr::Mod(a, _) => {
            collect_reads(a, out);
        }
        Expr::Add(a, b) | Expr::Min(a, b) | Expr::Cat(a, b) => {
            collect_reads(a, out);
            collect_reads(b, out);
        }
        Expr::If(c, t, f) => {
            collect_reads(c, out);
            collect_reads(t, out);
            collect_reads(f, out);
        }
        Expr::Join(v) | Expr::Unord(v) => out.extend(v.iter().copied()),
        Expr::Race(n, a) => {
            out.push(*n);
            collect_reads(a, out);
        }
        Expr::NonZero(a) => collect_reads(a, out),
    }
}

pub fn first(v: &Val) -> i64 { v.first().copied().unwrap_or(0) }

fn zip_with(a: &Val, b: &Val, f: impl Fn(i64, i64) -> i64) -> Val {
    let n = a.len().max(b.len());
    (0..n)
        .map(|i| {
            f(a.get(i).copied().unwrap_or(0), b.get(i).copied().unwrap_or(0))
        })
        .collect()
}

pub fn sum_all(vs: &[Val]) -> Val {
    let mut acc: Val = Vec::new();
    for v in vs {
        acc = zip_with(&acc, v, i64::wrapping_add);
    }
    acc
}

/// The evaluation of the reading node stops at this read (cycle member).
#[derive(Clone, Copy, Debug, PartialEq, Eq)]
pub struct Abort;

/// How an expression obtains the value of another node.
pub trait Reader: Sync {
    fn read(&self, n: u32) -> BoxFut<'_, Result<Val, Abort>>;
    fn read_join(&self, ns: &[u32]) -> BoxFut<'_, Result<Vec<Val>, Abort>>;
    fn read_unord(&self, ns: &[u32]) -> BoxFut<'_, Result<Vec<Val>, Abort>>;
    /// a partial executor is evaluated outside its domain: real executors
    /// panic, the from-scratch model yields `UNDEF`
    fn outside_domain(&self) -> Val { panic!("partial executor evaluated outside its domain") }
}

pub fn eval<'a, R: Reader>(e: &'a Expr, r: &'a R) -> BoxFut<'a, Result<Val, Abort>> {
    // `UNDEF` (model only) absorbs every operation it meets
    macro_rules! ev {
        ($x:expr) => {{
            let v = eval($x, r).await?;
            if is_undef(&v) {
                return Ok(v);
            }
            v
        }};
    }
    Box::pin(async move {
        Ok(match e {
            Expr::Const(v) => v.clone(),
            Expr::Read(n) => r.read(*n).await?,
            Expr::Idx(a, i) => {
                let v = ev!(a);
                if v.is_empty() {
                    vec![0]
                } else {
                    vec![v[(*i as usize) % v.len()]]
                }
            }
            Expr::Add(a, b) => {
                let x = ev!(a);
                let y = ev!(b);
                zip_with(&x, &y, i64::wrapping_add)
            }
            Expr::Mul(a, k) => ev!(a).iter().map(|x| x.wrapping_mul(*k)).collect(),
            Expr::Mod(a, k) => {
                let k = if *k == 0 { 1 } else { k.abs() };
                ev!(a).iter().map(|x| x.rem_euclid(k)).collect()
            }
            Expr::Min(a, b) => {
                let x = ev!(a);
                let y = ev!(b);
                zip_with(&x, &y, i64::min)
            }
            Expr::Cat(a, b) => {
                let mut x = ev!(a);
                let y = ev!(b);
                x.extend(y);
                x.truncate(6);
                x
            }
            Expr::If(c, t, f) => {
                let cv = ev!(c);
                if first(&cv) != 0 { eval(t, r).await? } else { eval(f, r).await? }
            }
            Expr::Join(ns) => {
                let vs = r.read_join(ns).await?;
                if let Some(u) = vs.iter().find(|v| is_undef(v)) {
                    return Ok(u.clone());
                }
                sum_all(&vs)
            }
            Expr::Unord(ns) => {
                let vs = r.read_unord(ns).await?;
                if let Some(u) = vs.iter().find(|v| is_undef(v)) {
                    return Ok(u.clone());
                }
                sum_all(&vs)
            }
            Expr::NonZero(a) => {
                let v = ev!(a);
                if first(&v) == 0 {
                    return Ok(r.outside_domain());
                }
                v
            }
            Expr::Race(n, inner) => {
                let mut side = r.read(*n);
                let mut main = eval(inner, r);
                let mut side_done = false;
                std::future::poll_fn(|cx| {
                    // the side read is started first (its callee is the
                    // first one registered) and then only driven while the
                    // expression is pending
                    if !side_done && side.as_mut().poll(cx).is_ready() {
                        side_done = true;
                    }
                    if let std::task::Poll::Ready(v) = main.as_mut().poll(cx) {
                        return std::task::Poll::Ready(v);
                    }
                    std::task::Poll::Pending
                })
                .await?
                // `side` is dropped here; if it had not completed, the engine
                // sees an abandoned sub-query
            }
        })
    })
}
