//! Seeded generation of programs and histories.

use simkit::Rng;

use crate::{
    program::{Expr, Kind, Node, Program, Val},
    scenario::{Op, SessStep},
};

#[derive(Clone, Debug)]
pub struct GenParams {
    pub min_nodes: u32,
    pub max_nodes: u32,
    pub max_ops: u32,
    pub allow_ex: bool,
    pub fanin: Option<u32>,
    /// only input and normal nodes (no firewall / projection)
    pub plain: bool,
}

impl GenParams {
    pub fn quick() -> Self {
        GenParams { min_nodes: 3, max_nodes: 12, max_ops: 10, allow_ex: true, fanin: None, plain: false }
    }
    pub fn thorough() -> Self {
        GenParams { min_nodes: 3, max_nodes: 40, max_ops: 30, allow_ex: true, fanin: None, plain: false }
    }
}

fn small_val(rng: &mut Rng) -> Val {
    let len = if rng.chance(3, 4) { 1 } else { rng.range(0, 3) as usize };
    (0..len).map(|_| rng.below(4) as i64).collect()
}

fn b(e: Expr) -> Box<Expr> { Box::new(e) }

thread_local! {
    /// programs may contain `Expr::Race` (abandoned sub-queries)
    pub static RACE: std::cell::Cell<bool> = const { std::cell::Cell::new(false) };
    /// programs may contain partial nodes (`Expr::NonZero`) behind guards
    pub static PARTIAL: std::cell::Cell<bool> = const { std::cell::Cell::new(false) };
    /// (guard node, partial node) pairs of the program being generated
    static GUARDS: std::cell::RefCell<Vec<(u32, u32)>> = const { std::cell::RefCell::new(Vec::new()) };
}

/// called at the start of every scenario: nothing carries over
pub fn clear_guards() { GUARDS.with(|g| g.borrow_mut().clear()); }

fn is_partial(n: u32) -> bool { GUARDS.with(|g| g.borrow().iter().any(|(_, p)| *p == n)) }

fn gen_expr(rng: &mut Rng, avail: &[u32], depth: u32, vectorish: bool) -> Expr {
    if avail.is_empty() {
        return Expr::Const(small_val(rng));
    }
    let leaf = depth == 0 || rng.chance(1, 3);
    if leaf {
        return if rng.chance(1, 8) {
            Expr::Const(small_val(rng))
        } else {
            Expr::Read(*rng.pick(avail))
        };
    }
    let d = depth - 1;
    // a guarded read of a partial node: `if g != 0 { .. p .. } else { .. }`
    let guards: Vec<(u32, u32)> = GUARDS.with(|g| g.borrow().iter().copied().filter(|(g, _)| avail.contains(g)).collect());
    if !guards.is_empty() && rng.chance(1, 3) {
        let (g, p) = *rng.pick(&guards);
        let then = if rng.chance(1, 2) { Expr::Read(p) } else { Expr::Add(b(Expr::Read(p)), b(gen_expr(rng, avail, d, false))) };
        let guarded = Expr::If(b(Expr::Read(g)), b(then), b(gen_expr(rng, avail, d, false)));
        return if RACE.with(std::cell::Cell::get) && rng.chance(1, 2) { Expr::Race(*rng.pick(avail), b(guarded)) } else { guarded };
    }
    if RACE.with(std::cell::Cell::get) && rng.chance(1, 10) {
        return Expr::Race(*rng.pick(avail), b(gen_expr(rng, avail, d, vectorish)));
    }
    match rng.below(if vectorish { 14 } else { 12 }) {
        0 | 1 => Expr::Add(b(gen_expr(rng, avail, d, false)), b(gen_expr(rng, avail, d, false))),
        2 => Expr::Mul(b(gen_expr(rng, avail, d, false)), rng.range(2, 10) as i64),
        3 | 4 => Expr::Mod(b(gen_expr(rng, avail, d, false)), rng.range(2, 3) as i64),
        5 => Expr::Min(b(gen_expr(rng, avail, d, false)), b(Expr::Const(vec![rng.range(0, 2) as i64]))),
        6 | 7 => Expr::If(
            b(gen_expr(rng, avail, d, false)),
            b(gen_expr(rng, avail, d, false)),
            b(gen_expr(rng, avail, d, false)),
        ),
        8 => Expr::Idx(b(gen_expr(rng, avail, d, true)), rng.below(3) as u32),
        9 => {
            let k = rng.range(2, 4).min(avail.len() as u64) as usize;
            let mut v = avail.to_vec();
            rng.shuffle(&mut v);
            v.truncate(k);
            Expr::Join(v)
        }
        10 => {
            let k = rng.range(2, 4).min(avail.len() as u64) as usize;
            let mut v = avail.to_vec();
            rng.shuffle(&mut v);
            v.truncate(k);
            Expr::Unord(v)
        }
        11 => Expr::Read(*rng.pick(avail)),
        _ => Expr::Cat(b(gen_expr(rng, avail, d, true)), b(gen_expr(rng, avail, d, true))),
    }
}

pub fn gen_program(rng: &mut Rng, p: &GenParams) -> Program {
    let n = rng.range(u64::from(p.min_nodes), u64::from(p.max_nodes)) as u32;
    let n_in = rng.range(1, 3.min(u64::from(n) - 1)) as u32;
    let n_ex = if p.allow_ex && n > n_in + 2 && rng.chance(1, 4) { 1 } else { 0 };
    let mut nodes: Vec<Node> = Vec::new();
    for _ in 0..n_in {
        nodes.push(Node { kind: Kind::In, expr: Expr::Const(vec![]) });
    }
    for _ in 0..n_ex {
        nodes.push(Node { kind: Kind::Ex, expr: Expr::Const(vec![]) });
    }
    GUARDS.with(|g| g.borrow_mut().clear());
    if PARTIAL.with(std::cell::Cell::get) {
        // partial nodes over some inputs; only ever read behind their guard
        for g in 0..n_in {
            if rng.chance(1, 2) {
                nodes.push(Node { kind: Kind::Nm, expr: Expr::NonZero(b(Expr::Read(g))) });
                let p = nodes.len() as u32 - 1;
                GUARDS.with(|gs| gs.borrow_mut().push((g, p)));
            }
        }
    }
    // per-run bias so that some programs are firewall/projection heavy
    let fw_w = if p.plain { 0 } else { rng.range(1, 4) };
    let pj_w = if p.plain { 0 } else { rng.range(0, 3) };
    let nm_w = rng.range(2, 6);
    while (nodes.len() as u32) < n {
        let i = nodes.len() as u32;
        let fwpj: Vec<u32> = (0..i)
            .filter(|j| matches!(nodes[*j as usize].kind, Kind::Fw | Kind::Pj))
            .collect();
        let all: Vec<u32> = (0..i).filter(|j| !is_partial(*j)).collect();
        let total = fw_w + nm_w + if fwpj.is_empty() { 0 } else { pj_w };
        let r = rng.below(total);
        let kind = if r < nm_w {
            Kind::Nm
        } else if r < nm_w + fw_w {
            Kind::Fw
        } else {
            Kind::Pj
        };
        // bias reads towards recent nodes so that chains / sandwiches form
        let avail: Vec<u32> = match kind {
            Kind::Pj => fwpj.clone(),
            _ => {
                if rng.chance(1, 2) && all.len() > 4 {
                    all[all.len() - 4..].to_vec()
                } else {
                    all.clone()
                }
            }
        };
        let depth = rng.range(1, 3) as u32;
        let expr = match kind {
            Kind::Fw => gen_expr(rng, &avail, depth, true),
            _ => gen_expr(rng, &avail, depth, false),
        };
        nodes.push(Node { kind, expr });
    }
    Program { nodes }
}

/// Dedicated fan-in shape: `k` callers (Nm) of one callee, plus a collector.
pub fn gen_fanin_program(rng: &mut Rng, k: u32) -> Program {
    let mut nodes = vec![
        Node { kind: Kind::In, expr: Expr::Const(vec![]) },
        Node { kind: Kind::In, expr: Expr::Const(vec![]) },
    ];
    // node 2: the shared callee
    let callee_kind = if rng.chance(1, 3) { Kind::Fw } else { Kind::Nm };
    nodes.push(Node {
        kind: callee_kind,
        expr: Expr::Add(b(Expr::Read(0)), b(Expr::Const(vec![1]))),
    });
    for i in 0..k {
        let e = if i % 3 == 0 {
            Expr::Add(b(Expr::Read(2)), b(Expr::Read(1)))
        } else {
            Expr::Add(b(Expr::Read(2)), b(Expr::Const(vec![i64::from(i)])))
        };
        nodes.push(Node { kind: Kind::Nm, expr: e });
    }
    Program { nodes }
}

pub struct HistState {
    pub inputs: Vec<(u32, Val, Val)>, // node, current, previous
}

pub fn gen_session(rng: &mut Rng, prog: &Program, st: &mut HistState, first: bool) -> Op {
    let mut steps = Vec::new();
    if first {
        for (n, cur, prev) in &mut st.inputs {
            let v = small_val(rng);
            *prev = cur.clone();
            *cur = v.clone();
            steps.push(SessStep::Set { node: *n, val: v });
        }
    } else {
        let k = rng.range(0, 3);
        for _ in 0..k {
            let has_ex = !prog.of_kind(Kind::Ex).is_empty();
            let r = rng.below(10);
            if r == 0 && has_ex {
                steps.push(SessStep::Refresh);
                continue;
            }
            let idx = rng.usize(st.inputs.len());
            let (n, cur, prev) = &mut st.inputs[idx];
            if r <= 2 {
                let delta = rng.below(2) as i64;
                steps.push(SessStep::Update { node: *n, delta });
                let newv: Val = if cur.is_empty() {
                    vec![delta]
                } else {
                    let mut c = cur.clone();
                    c[0] = c[0].wrapping_add(delta).rem_euclid(4);
                    c
                };
                if newv != *cur {
                    *prev = cur.clone();
                    *cur = newv;
                }
            } else {
                let v = match rng.below(4) {
                    0 => cur.clone(),  // no-op write
                    1 => prev.clone(), // revert
                    _ => small_val(rng),
                };
                steps.push(SessStep::Set { node: *n, val: v.clone() });
                if v != *cur {
                    *prev = cur.clone();
                    *cur = v;
                }
            }
        }
    }
    Op::Session { steps, commit: first || rng.chance(4, 5) }
}

pub fn gen_history(rng: &mut Rng, prog: &Program, p: &GenParams) -> Vec<Op> {
    let ins = prog.of_kind(Kind::In);
    let exs = prog.of_kind(Kind::Ex);
    let mut st = HistState {
        inputs: ins.iter().map(|n| (*n, vec![], vec![])).collect(),
    };
    let mut ops = Vec::new();
    // (current, previous) value of the world behind every external input
    let mut world: std::collections::BTreeMap<u32, (Val, Val)> = std::collections::BTreeMap::new();
    for e in &exs {
        let v = small_val(rng);
        world.insert(*e, (v.clone(), v.clone()));
        ops.push(Op::SetWorld { node: *e, val: v });
    }
    ops.push(gen_session(rng, prog, &mut st, true));
    let n_ops = rng.range(3, u64::from(p.max_ops));
    let n = prog.len();
    // roots are biased towards the top of the program
    let pick_root = |rng: &mut Rng| -> u32 {
        if rng.chance(1, 2) { n - 1 - rng.below(u64::from(n.min(3))) as u32 } else { rng.below(u64::from(n)) as u32 }
    };
    for _ in 0..n_ops {
        match rng.below(20) {
            0..=6 => ops.push(gen_session(rng, prog, &mut st, false)),
            7 if !exs.is_empty() => {
                let e = *rng.pick(&exs);
                let w = world.get_mut(&e).unwrap();
                // the world changes, sometimes back to what it was before
                let v = if rng.chance(1, 3) { w.1.clone() } else { small_val(rng) };
                if v != w.0 {
                    *w = (v.clone(), w.0.clone());
                }
                ops.push(Op::SetWorld { node: e, val: v });
                if rng.chance(1, 2) {
                    ops.push(Op::Session { steps: vec![SessStep::Refresh], commit: true });
                }
            }
            9 if !exs.is_empty() => {
                // round trip of an external input over two refresh sessions
                // (added after seeded change C03-1): the world changes and is
                // refreshed, changes back and is refreshed again, usually with
                // no request in between, so every reader of the external input
                // finds a dirty edge whose callee has the value it had seen
                let e = *rng.pick(&exs);
                let w = world.get_mut(&e).unwrap();
                let orig = w.0.clone();
                let mut other = small_val(rng);
                if other == orig {
                    other.push(1);
                }
                ops.push(Op::SetWorld { node: e, val: other.clone() });
                ops.push(Op::Session { steps: vec![SessStep::Refresh], commit: true });
                if rng.chance(1, 4) {
                    ops.push(Op::Query { root: pick_root(rng), new_tracked: true });
                }
                ops.push(Op::SetWorld { node: e, val: orig.clone() });
                ops.push(Op::Session { steps: vec![SessStep::Refresh], commit: true });
                *w = (orig, other);
                ops.push(Op::Query { root: pick_root(rng), new_tracked: true });
            }
            8 => ops.push(Op::RepairTfc { root: pick_root(rng) }),
            _ => ops.push(Op::Query { root: pick_root(rng), new_tracked: rng.chance(1, 3) }),
        }
    }
    ops
}

/// Insert `Restart` / `Drain` operations at arbitrary later positions.
pub fn sprinkle(rng: &mut Rng, ops: Vec<Op>, restarts: u32, drains: u32) -> Vec<Op> {
    let mut out = ops;
    let first_session = out.iter().position(|o| matches!(o, Op::Session { .. })).unwrap_or(0);
    for _ in 0..restarts {
        let pos = rng.range(first_session as u64 + 1, out.len() as u64) as usize;
        out.insert(pos, Op::Restart);
    }
    for _ in 0..drains {
        let pos = rng.range(first_session as u64 + 1, out.len() as u64) as usize;
        out.insert(pos, Op::Drain);
    }
    out
}

/// C02: sessions alternating with concurrent request phases.
pub fn gen_concurrent_history(rng: &mut Rng, prog: &Program, p: &GenParams, fanin: bool) -> Vec<Op> {
    let ins = prog.of_kind(Kind::In);
    let mut st = HistState { inputs: ins.iter().map(|n| (*n, vec![], vec![])).collect() };
    let mut ops = Vec::new();
    for e in prog.of_kind(Kind::Ex) {
        ops.push(Op::SetWorld { node: e, val: small_val(rng) });
    }
    ops.push(gen_session(rng, prog, &mut st, true));
    let n = prog.len();
    let phases = rng.range(2, u64::from(p.max_ops.min(6)));
    for _ in 0..phases {
        let roots: Vec<u32> = if fanin {
            // every caller of the shared callee at once
            (3..n).collect()
        } else {
            let k = rng.range(2, 6);
            (0..k).map(|_| if rng.chance(1, 2) { n - 1 - rng.below(u64::from(n.min(4))) as u32 } else { rng.below(u64::from(n)) as u32 }).collect()
        };
        ops.push(Op::Concurrent { roots, share_tracked: rng.chance(1, 3) });
        if rng.chance(1, 4) {
            ops.push(Op::Query { root: rng.below(u64::from(n)) as u32, new_tracked: true });
        }
        // make sure sessions change something below the shared callees
        let mut sess = gen_session(rng, prog, &mut st, false);
        if let Op::Session { steps, .. } = &mut sess {
            if steps.is_empty() || fanin {
                let idx = rng.usize(st.inputs.len());
                let (node, cur, prev) = &mut st.inputs[idx];
                let mut v = small_val(rng);
                if v == *cur {
                    v = vec![cur.first().copied().unwrap_or(0) + 1];
                }
                *prev = cur.clone();
                *cur = v.clone();
                steps.push(SessStep::Set { node: *node, val: v });
            }
        }
        ops.push(sess);
    }
    ops
}

/// C04: a setup session, optional queries, then a readers/writer phase.
pub fn gen_rw_history(rng: &mut Rng, prog: &Program) -> Vec<Op> {
    let ins = prog.of_kind(Kind::In);
    let n = prog.len();
    let mut ops = Vec::new();
    ops.push(Op::Session {
        steps: ins.iter().map(|i| SessStep::Set { node: *i, val: vec![i64::from(*i)] }).collect(),
        commit: true,
    });
    for _ in 0..rng.range(0, 3) {
        ops.push(Op::Query { root: rng.below(u64::from(n)) as u32, new_tracked: rng.chance(1, 2) });
    }
    let phases = rng.range(1, 2);
    let mut stamp = 0i64;
    for _ in 0..phases {
        let ns = rng.range(1, 5);
        let mut sessions = Vec::new();
        for _ in 0..ns {
            stamp += 1;
            let k = rng.range(1, ins.len() as u64);
            let mut which = ins.clone();
            rng.shuffle(&mut which);
            which.truncate(k as usize);
            let steps = which
                .iter()
                .map(|i| SessStep::Set { node: *i, val: vec![100 * stamp + i64::from(*i)] })
                .collect();
            sessions.push((steps, rng.chance(7, 10)));
        }
        let nr = rng.range(1, 4);
        let readers = (0..nr)
            .map(|_| {
                (0..rng.range(1, 3))
                    .map(|_| (0..rng.range(1, 3)).map(|_| rng.below(u64::from(n)) as u32).collect())
                    .collect()
            })
            .collect();
        let detach = if rng.chance(1, 3) { 1 + rng.below(u64::MAX - 1) } else { 0 };
        ops.push(Op::ReadersWriter { sessions, readers, detach });
        if rng.chance(1, 2) {
            ops.push(Op::Query { root: rng.below(u64::from(n)) as u32, new_tracked: true });
        }
    }
    ops
}

/// C05: an ordinary history with one faulted operation in the middle.
/// `kind`: 0 query cancel, 1 concurrent abort, 2 session call cancel, 3 panic
pub fn gen_fault_history(rng: &mut Rng, prog: &Program, p: &GenParams, kind: u64) -> Vec<Op> {
    use crate::scenario::{Fault, Target};
    let ins = prog.of_kind(Kind::In);
    let mut st = HistState { inputs: ins.iter().map(|n| (*n, vec![], vec![])).collect() };
    let n = prog.len();
    let mut ops = vec![gen_session(rng, prog, &mut st, true)];
    let root = |rng: &mut Rng| if rng.chance(2, 3) { n - 1 - rng.below(u64::from(n.min(3))) as u32 } else { rng.below(u64::from(n)) as u32 };
    // some state to repair
    if rng.chance(2, 3) {
        ops.push(Op::Query { root: root(rng), new_tracked: true });
        ops.push(gen_session(rng, prog, &mut st, false));
    }
    let faulted = match kind {
        0 => Op::Faulted {
            op: Box::new(Op::Query { root: root(rng), new_tracked: true }),
            fault: Fault::Cancel { target: Target::Query, n: 0 },
        },
        1 | 5 => Op::Faulted {
            op: Box::new(Op::Concurrent {
                roots: (0..rng.range(2, 4)).map(|_| root(rng)).collect(),
                share_tracked: rng.chance(1, 3),
            }),
            fault: Fault::Cancel { target: Target::Query, n: 0 },
        },
        6 => {
            let execs: Vec<u32> = (0..n).filter(|i| !matches!(prog.kind(*i), Kind::In | Kind::Ex)).collect();
            let pjs = prog.of_kind(Kind::Pj);
            let node = if !pjs.is_empty() && rng.chance(1, 2) { *rng.pick(&pjs) } else if execs.is_empty() { 0 } else { *rng.pick(&execs) };
            Op::Faulted {
                op: Box::new(Op::Concurrent {
                    roots: (0..rng.range(2, 4)).map(|_| root(rng).max(node)).collect(),
                    share_tracked: rng.chance(1, 3),
                }),
                fault: Fault::Panic { node, k: 0 },
            }
        }
        2 => {
            let mut sess = gen_session(rng, prog, &mut st, false);
            let mut target = Target::Commit;
            if let Op::Session { steps, commit } = &mut sess {
                steps.retain(|s| matches!(s, SessStep::Set { .. }));
                if steps.is_empty() {
                    let (node, cur, prev) = &mut st.inputs[0];
                    let v = vec![cur.first().copied().unwrap_or(0) + 1];
                    *prev = cur.clone();
                    *cur = v.clone();
                    steps.push(SessStep::Set { node: *node, val: v });
                }
                *commit = true;
                target = match rng.below(4) {
                    0 => Target::OpenSession,
                    1 => Target::Commit,
                    _ => Target::SessionStep(rng.below(steps.len() as u64) as u32),
                };
            }
            Op::Faulted { op: Box::new(sess), fault: Fault::Cancel { target, n: 0 } }
        }
        _ => {
            let execs: Vec<u32> = (0..n).filter(|i| !matches!(prog.kind(*i), Kind::In | Kind::Ex)).collect();
            let pjs = prog.of_kind(Kind::Pj);
            let fws = prog.of_kind(Kind::Fw);
            // projections and firewalls run inside the engine's own passes
            // (backward projection, firewall repair): panic there more often
            let node = if !pjs.is_empty() && rng.chance(2, 5) {
                *rng.pick(&pjs)
            } else if !fws.is_empty() && rng.chance(1, 3) {
                *rng.pick(&fws)
            } else if execs.is_empty() {
                0
            } else {
                *rng.pick(&execs)
            };
            Op::Faulted {
                op: Box::new(Op::Query { root: root(rng).max(node), new_tracked: true }),
                fault: Fault::Panic { node, k: 0 },
            }
        }
    };
    ops.push(faulted);
    // the engine must stay fully usable
    for _ in 0..rng.range(1, u64::from(p.max_ops.min(5))) {
        match rng.below(3) {
            0 => ops.push(gen_session(rng, prog, &mut st, false)),
            _ => ops.push(Op::Query { root: root(rng), new_tracked: rng.chance(1, 2) }),
        }
    }
    // always at least one changing session after the fault
    {
        let idx = rng.usize(st.inputs.len());
        let (node, cur, prev) = &mut st.inputs[idx];
        let v = vec![cur.first().copied().unwrap_or(0) + 1, 7];
        *prev = cur.clone();
        *cur = v.clone();
        ops.push(Op::Session { steps: vec![SessStep::Set { node: *node, val: v }], commit: true });
    }
    ops
}

/// C06: small digraphs with self-loops, several SCCs and conditional edges.
pub fn gen_cyclic_program(rng: &mut Rng, with_fw: bool) -> Program {
    let n_in = rng.range(1, 2) as u32;
    let n = n_in + rng.range(2, 7) as u32;
    let mut nodes: Vec<Node> = (0..n_in).map(|_| Node { kind: Kind::In, expr: Expr::Const(vec![]) }).collect();
    let flags: Vec<u32> = (0..n_in).collect();
    let all: Vec<u32> = (n_in..n).collect();
    for i in n_in..n {
        let any = |rng: &mut Rng| -> u32 {
            // bias: forward reference, self, backward reference
            match rng.below(6) {
                0 => i,
                _ => *rng.pick(&all),
            }
        };
        let rd = |rng: &mut Rng| -> Expr {
            match rng.below(5) {
                0 => Expr::Const(vec![rng.below(3) as i64 + 1]),
                1 => Expr::Read(*rng.pick(&flags)),
                _ => Expr::Read(any(rng)),
            }
        };
        let expr = match rng.below(6) {
            0 => rd(rng),
            1 | 2 => Expr::Add(b(rd(rng)), b(rd(rng))),
            3 | 4 => Expr::If(b(Expr::Read(*rng.pick(&flags))), b(rd(rng)), b(rd(rng))),
            _ => Expr::Add(b(Expr::If(b(Expr::Read(*rng.pick(&flags))), b(rd(rng)), b(Expr::Const(vec![1])))), b(rd(rng))),
        };
        let kind = if with_fw && rng.chance(1, 4) { Kind::Fw } else { Kind::Nm };
        nodes.push(Node { kind, expr });
    }
    Program { nodes }
}

pub fn gen_cyclic_history(rng: &mut Rng, prog: &Program, concurrent: bool) -> Vec<Op> {
    let flags = prog.of_kind(Kind::In);
    let n = prog.len();
    let first = flags.len() as u32;
    let mut ops = vec![Op::Session {
        steps: flags.iter().map(|f| SessStep::Set { node: *f, val: vec![rng.below(2) as i64] }).collect(),
        commit: true,
    }];
    for _ in 0..rng.range(2, 8) {
        match rng.below(4) {
            0 => {
                let f = *rng.pick(&flags);
                ops.push(Op::Session {
                    steps: vec![SessStep::Set { node: f, val: vec![rng.below(2) as i64] }],
                    commit: rng.chance(4, 5),
                });
            }
            1 if concurrent => {
                let k = rng.range(2, 4);
                ops.push(Op::Concurrent {
                    roots: (0..k).map(|_| rng.range(u64::from(first), u64::from(n) - 1) as u32).collect(),
                    share_tracked: rng.chance(1, 3),
                });
            }
            _ => ops.push(Op::Query {
                root: rng.range(u64::from(first), u64::from(n) - 1) as u32,
                new_tracked: rng.chance(1, 3),
            }),
        }
    }
    ops
}

/// Shapes aimed at the transitive-firewall bookkeeping: switches decide
/// whether a "gate" node reads a firewall / projection at all, the read is
/// wrapped in an absorbing operation (so the reader's value often stays the
/// same when the dependency appears or its value moves), and chains of normal
/// nodes sit above the gates.
pub fn gen_program_tfc(rng: &mut Rng) -> Program {
    let mut nodes: Vec<Node> = Vec::new();
    let inp = |nodes: &mut Vec<Node>| -> u32 {
        nodes.push(Node { kind: Kind::In, expr: Expr::Const(vec![]) });
        nodes.len() as u32 - 1
    };
    let n_sw = rng.range(1, 2);
    let n_x = rng.range(1, 2);
    let sw: Vec<u32> = (0..n_sw).map(|_| inp(&mut nodes)).collect();
    let xs: Vec<u32> = (0..n_x).map(|_| inp(&mut nodes)).collect();
    // firewalls over the data inputs, possibly chained
    let mut fws: Vec<u32> = Vec::new();
    for i in 0..rng.range(1, 3) {
        let base = Expr::Read(*rng.pick(&xs));
        let e = if i > 0 && rng.chance(1, 3) {
            Expr::Add(b(base), b(Expr::Read(*rng.pick(&fws))))
        } else if rng.chance(1, 2) {
            Expr::Mul(b(base), rng.range(2, 10) as i64)
        } else {
            base
        };
        nodes.push(Node { kind: Kind::Fw, expr: e });
        fws.push(nodes.len() as u32 - 1);
    }
    // optional projections
    let mut srcs = fws.clone();
    for _ in 0..rng.range(0, 2) {
        let e = if rng.chance(1, 2) { Expr::Read(*rng.pick(&srcs)) } else { Expr::Idx(b(Expr::Read(*rng.pick(&srcs))), 0) };
        nodes.push(Node { kind: Kind::Pj, expr: e });
        srcs.push(nodes.len() as u32 - 1);
    }
    // gates
    let mut gates: Vec<u32> = Vec::new();
    for _ in 0..rng.range(1, 3) {
        let src = Expr::Read(*rng.pick(&srcs));
        let k = rng.range(1, 12) as i64;
        let (absorbed, cap) = match rng.below(4) {
            0 | 1 => (Expr::Min(b(src), b(Expr::Const(vec![k]))), Some(k)),
            2 => (Expr::Mod(b(src), rng.range(2, 3) as i64), None),
            _ => (src, None),
        };
        // often the value is the same whether the dependency is read or not
        // (the read is capped at the constant the other branch returns)
        let other = match cap {
            Some(k) if rng.chance(2, 3) => Expr::Const(vec![k]),
            _ if rng.chance(1, 2) || gates.is_empty() => Expr::Const(vec![rng.range(0, 10) as i64]),
            _ => Expr::Read(*rng.pick(&gates)),
        };
        let e = if rng.chance(1, 2) {
            Expr::If(b(Expr::Read(*rng.pick(&sw))), b(absorbed), b(other))
        } else {
            Expr::If(b(Expr::Read(*rng.pick(&sw))), b(other), b(absorbed))
        };
        let kind = if rng.chance(1, 6) { Kind::Fw } else { Kind::Nm };
        nodes.push(Node { kind, expr: e });
        gates.push(nodes.len() as u32 - 1);
    }
    // chains above the gates
    let mut tops = gates.clone();
    // plain readers of single firewalls (added after seeded change C01-4): a
    // node above a gate and such a reader keeps a firewall in its set through
    // a child that no switch ever touches
    for f in &fws {
        if rng.chance(1, 2) {
            nodes.push(Node { kind: Kind::Nm, expr: Expr::Read(*f) });
            tops.push(nodes.len() as u32 - 1);
        }
    }
    for _ in 0..rng.range(1, 4) {
        let below = if rng.chance(1, 2) { *rng.pick(&gates) } else { *rng.pick(&tops) };
        let e = match rng.below(4) {
            0 => Expr::Add(b(Expr::Read(below)), b(Expr::Const(vec![1]))),
            1 => Expr::Add(b(Expr::Read(below)), b(Expr::Read(*rng.pick(&tops)))),
            2 if rng.chance(1, 2) => Expr::Read(below),
            // a gate and a firewall read directly (seeded change C03-3)
            2 => Expr::Add(b(Expr::Read(below)), b(Expr::Read(*rng.pick(&fws)))),
            _ => Expr::Add(b(Expr::Read(below)), b(Expr::Read(*rng.pick(&xs)))),
        };
        nodes.push(Node { kind: Kind::Nm, expr: e });
        tops.push(nodes.len() as u32 - 1);
    }
    // usually one more plain level on top of the last chain node: two plain
    // levels above a gate are what seeded change C01-1 needs
    if rng.chance(2, 3) {
        let last = *tops.last().unwrap();
        let e = if rng.chance(1, 2) { Expr::Read(last) } else { Expr::Add(b(Expr::Read(last)), b(Expr::Read(*rng.pick(&xs)))) };
        nodes.push(Node { kind: Kind::Nm, expr: e });
    }
    Program { nodes }
}

/// Guard shapes (added after the seeded change C05-3): partial nodes behind
/// guards, read by nodes that also abandon sub-queries, so that the order of
/// the recorded dependencies matters (the guard has to be verified before the
/// node it guards).
pub fn gen_program_guard(rng: &mut Rng) -> Program {
    let mut nodes: Vec<Node> = Vec::new();
    let n_g = rng.range(1, 2) as u32;
    let n_a = rng.range(1, 2) as u32;
    for _ in 0..n_g + n_a {
        nodes.push(Node { kind: Kind::In, expr: Expr::Const(vec![]) });
    }
    let gs: Vec<u32> = (0..n_g).collect();
    let data: Vec<u32> = (n_g..n_g + n_a).collect();
    // partial nodes
    let mut ps: Vec<(u32, u32)> = Vec::new();
    for g in &gs {
        nodes.push(Node { kind: Kind::Nm, expr: Expr::NonZero(b(Expr::Read(*g))) });
        ps.push((*g, nodes.len() as u32 - 1));
    }
    // plain nodes that take a while to compute (targets of abandoned reads)
    let mut xs: Vec<u32> = Vec::new();
    for _ in 0..rng.range(1, 3) {
        let src = if xs.is_empty() || rng.chance(1, 2) { *rng.pick(&data) } else { *rng.pick(&xs) };
        let e = match rng.below(3) {
            0 => Expr::Add(b(Expr::Read(src)), b(Expr::Read(*rng.pick(&data)))),
            1 => Expr::Read(src),
            _ => Expr::Mod(b(Expr::Read(src)), 3),
        };
        let kind = if rng.chance(1, 5) { Kind::Fw } else { Kind::Nm };
        nodes.push(Node { kind, expr: e });
        xs.push(nodes.len() as u32 - 1);
    }
    // guarded readers
    let mut rs: Vec<u32> = Vec::new();
    for _ in 0..rng.range(1, 3) {
        let (g, p) = *rng.pick(&ps);
        let then = match rng.below(3) {
            0 => Expr::Read(p),
            1 => Expr::Add(b(Expr::Read(p)), b(Expr::Read(*rng.pick(&xs)))),
            _ => Expr::Join(vec![p, *rng.pick(&xs)]),
        };
        let other = if rng.chance(1, 2) { Expr::Const(vec![rng.range(0, 9) as i64]) } else { Expr::Read(*rng.pick(&xs)) };
        let guarded = Expr::If(b(Expr::Read(g)), b(then), b(other));
        let e = match rng.below(4) {
            0 => guarded,
            1 => Expr::Add(b(Expr::Read(*rng.pick(&xs))), b(guarded)),
            _ => Expr::Race(*rng.pick(&xs), b(guarded)),
        };
        nodes.push(Node { kind: Kind::Nm, expr: e });
        rs.push(nodes.len() as u32 - 1);
    }
    // tops
    for _ in 0..rng.range(1, 2) {
        let e = Expr::Add(b(Expr::Read(*rng.pick(&rs))), b(Expr::Read(if rng.chance(1, 2) { *rng.pick(&rs) } else { *rng.pick(&data) })));
        nodes.push(Node { kind: Kind::Nm, expr: e });
    }
    Program { nodes }
}

/// histories for `gen_program_guard`: the guard inputs move between zero and
/// non-zero, the data moves, the upper nodes are asked after every session
pub fn gen_history_guard(rng: &mut Rng, prog: &Program) -> Vec<Op> {
    let ins = prog.of_kind(Kind::In);
    let n = prog.len();
    let n_g = prog.nodes.iter().filter(|x| matches!(x.expr, Expr::NonZero(_))).count().max(1);
    let mut cur: Vec<i64> = ins.iter().enumerate().map(|(i, _)| if i < n_g { 1 } else { rng.below(4) as i64 }).collect();
    let mut ops = vec![Op::Session {
        steps: ins.iter().zip(&cur).map(|(i, v)| SessStep::Set { node: *i, val: vec![*v] }).collect(),
        commit: true,
    }];
    let top = |rng: &mut Rng| n - 1 - rng.below(u64::from(n.min(3))) as u32;
    ops.push(Op::Query { root: top(rng), new_tracked: true });
    for _ in 0..rng.range(2, 6) {
        let i = rng.usize(ins.len());
        let v = if i < n_g {
            // guards: mostly toggling between zero and non-zero
            if cur[i] == 0 { rng.range(1, 2) as i64 } else if rng.chance(2, 3) { 0 } else { 3 - cur[i] }
        } else {
            let mut v = rng.below(5) as i64;
            if v == cur[i] {
                v += 1;
            }
            v
        };
        cur[i] = v;
        ops.push(Op::Session { steps: vec![SessStep::Set { node: ins[i], val: vec![v] }], commit: true });
        for _ in 0..rng.range(1, 2) {
            ops.push(Op::Query { root: top(rng), new_tracked: rng.chance(1, 2) });
        }
    }
    ops
}

/// Wide shapes (added after the seeded changes C01-5 and C02-4): one firewall
/// with 5-14 projections, each with a reader of its own, and nodes that read
/// 5-14 nodes in one unordered group. The engine splits such fans into chunks
/// of `len / (4 * available_parallelism)`; together with `RunCfg::cpus` (1 or
/// 2) the chunking has several chunks and a remainder.
pub fn gen_program_wide(rng: &mut Rng) -> Program {
    let mut nodes: Vec<Node> = Vec::new();
    let n_in = rng.range(2, 4) as u32;
    for _ in 0..n_in {
        nodes.push(Node { kind: Kind::In, expr: Expr::Const(vec![]) });
    }
    let ins: Vec<u32> = (0..n_in).collect();
    // the firewall concatenates inputs so that projections can pick elements
    let fw_expr = Expr::Cat(b(Expr::Read(ins[0])), b(Expr::Cat(b(Expr::Read(ins[1])), b(Expr::Read(*rng.pick(&ins))))));
    nodes.push(Node { kind: Kind::Fw, expr: fw_expr });
    let fw = nodes.len() as u32 - 1;
    let n_pj = rng.range(5, 14) as u32;
    let mut readers: Vec<u32> = Vec::new();
    let mut pjs: Vec<u32> = Vec::new();
    for i in 0..n_pj {
        let e = match rng.below(3) {
            0 => Expr::Idx(b(Expr::Read(fw)), i % 6),
            1 => Expr::Mod(b(Expr::Idx(b(Expr::Read(fw)), i % 6)), 2),
            _ => Expr::Add(b(Expr::Idx(b(Expr::Read(fw)), i % 6)), b(Expr::Const(vec![i64::from(i)]))),
        };
        nodes.push(Node { kind: Kind::Pj, expr: e });
        pjs.push(nodes.len() as u32 - 1);
    }
    for p in &pjs {
        let e = if rng.chance(1, 3) { Expr::Add(b(Expr::Read(*p)), b(Expr::Const(vec![1]))) } else { Expr::Read(*p) };
        nodes.push(Node { kind: Kind::Nm, expr: e });
        readers.push(nodes.len() as u32 - 1);
    }
    // leaves for the unordered groups: plain functions of single inputs
    let n_leaf = rng.range(5, 14) as u32;
    let mut leaves: Vec<u32> = Vec::new();
    for i in 0..n_leaf {
        let src = ins[(i % n_in) as usize];
        let e = match rng.below(3) {
            0 => Expr::Read(src),
            1 => Expr::Mod(b(Expr::Read(src)), 2),
            _ => Expr::Add(b(Expr::Read(src)), b(Expr::Const(vec![i64::from(i)]))),
        };
        nodes.push(Node { kind: Kind::Nm, expr: e });
        leaves.push(nodes.len() as u32 - 1);
    }
    for _ in 0..rng.range(1, 2) {
        let mut v = leaves.clone();
        rng.shuffle(&mut v);
        v.truncate(rng.range(5, u64::from(n_leaf)) as usize);
        nodes.push(Node { kind: Kind::Nm, expr: Expr::Unord(v) });
    }
    // one node over many readers
    {
        let mut v = readers.clone();
        rng.shuffle(&mut v);
        v.truncate(rng.range(3, 6).min(readers.len() as u64) as usize);
        nodes.push(Node { kind: Kind::Nm, expr: Expr::Join(v) });
    }
    // many external inputs (added after seeded change C03-5: `refresh` runs
    // them in chunks) and a node over all of them
    if rng.chance(1, 2) {
        let first = nodes.len() as u32;
        let n_ex = rng.range(5, 13) as u32;
        for _ in 0..n_ex {
            nodes.push(Node { kind: Kind::Ex, expr: Expr::Const(vec![]) });
        }
        let exs: Vec<u32> = (first..first + n_ex).collect();
        nodes.push(Node { kind: Kind::Nm, expr: if rng.chance(1, 2) { Expr::Join(exs) } else { Expr::Unord(exs) } });
    }
    // many firewalls below one node (added after seeded change C02-6): the
    // repair of the transitive firewall callees of a node runs in chunks of
    // `len / (4 * available_parallelism)`; 9-20 firewalls with 1 or 2 CPUs
    // give chunks of 2-5 and a remainder
    if rng.chance(1, 2) {
        let n_fw = rng.range(9, 20) as u32;
        let mut fws: Vec<u32> = Vec::new();
        // every firewall over an input of its own: a session that changes
        // one of them changes exactly one firewall (a second changed callee
        // would make the node above re-execute and ask all of them again)
        let first_in = nodes.len() as u32;
        for _ in 0..n_fw {
            nodes.push(Node { kind: Kind::In, expr: Expr::Const(vec![]) });
        }
        for i in 0..n_fw {
            let src = first_in + i;
            let e = match rng.below(3) {
                0 => Expr::Read(src),
                1 => Expr::Cat(b(Expr::Read(src)), b(Expr::Const(vec![i64::from(i)]))),
                _ => Expr::Add(b(Expr::Read(src)), b(Expr::Const(vec![i64::from(i)]))),
            };
            nodes.push(Node { kind: Kind::Fw, expr: e });
            fws.push(nodes.len() as u32 - 1);
        }
        nodes.push(Node { kind: Kind::Nm, expr: if rng.chance(1, 2) { Expr::Join(fws) } else { Expr::Unord(fws) } });
        let over = nodes.len() as u32 - 1;
        nodes.push(Node { kind: Kind::Nm, expr: Expr::Add(b(Expr::Read(over)), b(Expr::Const(vec![1]))) });
    }
    Program { nodes }
}

/// histories for `gen_program_wide`: compute everything, change one input,
/// ask single readers (each must see the change through its own projection)
pub fn gen_history_wide(rng: &mut Rng, prog: &Program) -> Vec<Op> {
    let ins = prog.of_kind(Kind::In);
    let mut st = HistState { inputs: ins.iter().map(|n| (*n, vec![], vec![])).collect() };
    let n = prog.len();
    let exs = prog.of_kind(Kind::Ex);
    let mut ops = Vec::new();
    for e in &exs {
        ops.push(Op::SetWorld { node: *e, val: small_val(rng) });
    }
    ops.push(gen_session(rng, prog, &mut st, true));
    let tops: Vec<u32> = (0..n).filter(|i| prog.kind(*i) == Kind::Nm).collect();
    // first epoch: everything is computed
    for t in &tops {
        ops.push(Op::Query { root: *t, new_tracked: false });
    }
    let many_fw = prog.of_kind(Kind::Fw).len() >= 9;
    for _ in 0..if many_fw { rng.range(3, 6) } else { rng.range(1, 3) } {
        // a changing session
        let idx = rng.usize(st.inputs.len());
        {
            let (node, cur, prev) = &mut st.inputs[idx];
            let mut v = small_val(rng);
            if v == *cur {
                v.push(3);
            }
            *prev = cur.clone();
            *cur = v.clone();
            ops.push(Op::Session { steps: vec![SessStep::Set { node: *node, val: v }], commit: true });
        }
        let mut order = tops.clone();
        rng.shuffle(&mut order);
        order.truncate(rng.range(2, 8).min(order.len() as u64) as usize);
        for t in order {
            ops.push(Op::Query { root: t, new_tracked: rng.chance(1, 4) });
        }
        if rng.chance(1, 2) {
            ops.push(Op::Query { root: n - 1, new_tracked: rng.chance(1, 4) });
        }
        if !exs.is_empty() {
            // the world moves a little, everything is refreshed
            for _ in 0..rng.range(0, 2) {
                ops.push(Op::SetWorld { node: *rng.pick(&exs), val: small_val(rng) });
            }
            ops.push(Op::Session { steps: vec![SessStep::Refresh], commit: true });
            ops.push(Op::Query { root: n - 1, new_tracked: true });
        }
    }
    ops
}

/// histories for `gen_program_tfc`: switches and data move in separate
/// sessions, queries go to the upper nodes
pub fn gen_history_tfc(rng: &mut Rng, prog: &Program) -> Vec<Op> {
    let ins = prog.of_kind(Kind::In);
    let n = prog.len();
    let n_ins = ins.len();
    let mut cur: Vec<i64> = (0..n_ins).map(|i| if i * 2 < n_ins { rng.below(2) as i64 } else { *rng.pick(&[20, 20, 5, 1]) }).collect();
    let mut ops = vec![Op::Session {
        steps: ins.iter().zip(&cur).map(|(i, v)| SessStep::Set { node: *i, val: vec![*v] }).collect(),
        commit: true,
    }];
    let top = |rng: &mut Rng| n - 1 - rng.below(u64::from(n.min(4))) as u32;
    if rng.chance(1, 2) {
        // the pattern behind the seeded changes C01-1 and C01-4: one upper
        // node is asked, a switch flips (often without changing any value, so
        // the node is verified and only its firewall set is rebuilt), the node
        // is asked again, then the data below the firewalls moves
        let t = top(rng);
        let fws = prog.of_kind(Kind::Fw);
        ops.push(Op::Query { root: t, new_tracked: true });
        for _ in 0..rng.range(1, 3) {
            let si = rng.usize(n_ins.div_ceil(2));
            cur[si] = 1 - cur[si].clamp(0, 1);
            ops.push(Op::Session { steps: vec![SessStep::Set { node: ins[si], val: vec![cur[si]] }], commit: true });
            ops.push(Op::Query { root: t, new_tracked: true });
            if !fws.is_empty() && rng.chance(1, 3) {
                // the data moves and moves back while only a firewall is
                // asked; then the upper node is asked again: everything it
                // read has the value it saw (seeded change C03-3)
                let di = (n_ins.div_ceil(2) + rng.usize((n_ins - n_ins.div_ceil(2)).max(1))).min(n_ins - 1);
                let orig = cur[di];
                let f = *rng.pick(&fws);
                ops.push(Op::Session { steps: vec![SessStep::Set { node: ins[di], val: vec![orig + 1] }], commit: true });
                ops.push(Op::Query { root: f, new_tracked: true });
                ops.push(Op::Session { steps: vec![SessStep::Set { node: ins[di], val: vec![orig] }], commit: true });
                ops.push(Op::Query { root: f, new_tracked: true });
                ops.push(Op::Query { root: t, new_tracked: true });
            }
            for _ in 0..rng.range(1, 2) {
                let di = n_ins.div_ceil(2) + rng.usize((n_ins - n_ins.div_ceil(2)).max(1));
                let di = di.min(n_ins - 1);
                let mut v = *rng.pick(&[0, 1, 2, 5, 20]);
                if v == cur[di] {
                    v += 1;
                }
                cur[di] = v;
                ops.push(Op::Session { steps: vec![SessStep::Set { node: ins[di], val: vec![v] }], commit: true });
                ops.push(Op::Query { root: if rng.chance(3, 4) { t } else { top(rng) }, new_tracked: true });
            }
        }
        return ops;
    }
    for _ in 0..rng.range(3, 9) {
        if rng.chance(1, 2) {
            ops.push(Op::Query { root: top(rng), new_tracked: rng.chance(1, 2) });
        } else {
            let i = rng.usize(ins.len());
            // switches toggle, data takes small and large values
            let v = if rng.chance(1, 2) { 1 - cur[i].clamp(0, 1) } else { *rng.pick(&[0, 1, 2, 5, 20]) };
            cur[i] = v;
            ops.push(Op::Session { steps: vec![SessStep::Set { node: ins[i], val: vec![v] }], commit: rng.chance(4, 5) });
            if rng.chance(2, 3) {
                ops.push(Op::Query { root: top(rng), new_tracked: true });
            }
        }
    }
    ops
}

/// C05, "panic inside one of the engine's own passes": a firewall / projection
/// sandwich is computed, the data below the firewall changes, and the request
/// that makes the engine repair the firewall (and re-run the projections above
/// it) meets a panicking executor; the same root is asked again right after.
pub fn gen_pass_panic_history(rng: &mut Rng, prog: &Program) -> Vec<Op> {
    use crate::scenario::Fault;
    let ins = prog.of_kind(Kind::In);
    let n = prog.len();
    let n_ins = ins.len();
    let mut cur: Vec<i64> = (0..n_ins).map(|i| if i * 2 < n_ins { 1 } else { 20 }).collect();
    let mut ops = vec![Op::Session {
        steps: ins.iter().zip(&cur).map(|(i, v)| SessStep::Set { node: *i, val: vec![*v] }).collect(),
        commit: true,
    }];
    let top = n - 1 - rng.below(u64::from(n.min(3))) as u32;
    ops.push(Op::Query { root: top, new_tracked: true });
    // move a data input (the second half of the inputs feeds the firewalls)
    let di = n_ins / 2 + rng.usize(n_ins - n_ins / 2);
    cur[di] = *rng.pick(&[1, 2, 5, 7]);
    ops.push(Op::Session { steps: vec![SessStep::Set { node: ins[di], val: vec![cur[di]] }], commit: true });
    let mut cands: Vec<u32> = prog.of_kind(Kind::Pj);
    cands.extend(prog.of_kind(Kind::Fw));
    if cands.is_empty() || rng.chance(1, 4) {
        cands = (0..n).filter(|i| !matches!(prog.kind(*i), Kind::In | Kind::Ex)).collect();
    }
    let node = *rng.pick(&cands);
    ops.push(Op::Faulted {
        op: Box::new(Op::Query { root: top.max(node), new_tracked: true }),
        fault: Fault::Panic { node, k: 0 },
    });
    ops.push(Op::Query { root: top, new_tracked: true });
    if rng.chance(1, 2) {
        let si = rng.usize(n_ins);
        cur[si] = if si * 2 < n_ins { 1 - cur[si].clamp(0, 1) } else { *rng.pick(&[3, 9, 20]) };
        ops.push(Op::Session { steps: vec![SessStep::Set { node: ins[si], val: vec![cur[si]] }], commit: true });
        ops.push(Op::Query { root: top, new_tracked: true });
    }
    ops
}
