//! Concurrent phases (C02), readers/writer phases (C04) and faulted
//! operations (C05).

use std::{collections::HashMap, panic::AssertUnwindSafe, sync::Arc, time::Duration};

use futures::FutureExt;
use parking_lot::Mutex;
use simkit::sched::{self, CancelAt, Cancelled, Kind as PK};

use crate::{
    model::{Failure, Model},
    program::Val,
    queries::{HelperCfg, HelperEv, INJECTED_PANIC, In, query_node},
    run::{Runner, SimCfg, fail},
    scenario::{Fault, Op, SessStep, Target},
};

#[derive(Clone, Debug)]
enum RwEv {
    SessionCall(usize),
    SessionOpened(usize),
    CommitReturn(usize),
    TrackedCall(usize, usize),
    TrackedReturn(usize, usize),
    Result(usize, usize, u32, Val),
    Abandoned(usize, usize, u32),
    Helper(HelperEv),
}

fn mix3(salt: u64, a: u64, b: u64, c: u64) -> u64 {
    let mut x = salt ^ a.wrapping_mul(0x9E37_79B9_7F4A_7C15) ^ b.wrapping_mul(0xC2B2_AE3D_27D4_EB4F)
        ^ c.wrapping_mul(0x1656_67B1_9E37_79F9);
    x ^= x >> 31;
    x = x.wrapping_mul(0xD6E8_FEB8_6659_FD93);
    x ^ (x >> 29)
}

impl<'a, C: SimCfg> Runner<'a, C> {
    /// Let every other task run until nothing is runnable any more (detached
    /// guard futures, dropped sessions).  The paused clock only advances
    /// when the runtime is idle, so this returns exactly at quiescence.
    pub(crate) async fn quiesce(&mut self) {
        tokio::time::sleep(Duration::from_millis(1)).await;
    }

    pub(crate) async fn resolve_uncertain_inputs(&mut self) -> Result<(), Failure> {
        if self.uncertain_inputs.is_empty() {
            return Ok(());
        }
        let unc = std::mem::take(&mut self.uncertain_inputs);
        let te = self.engine().clone().tracked().await;
        for (node, old, new) in unc {
            let v = query_node(&te, &self.sc.program, node).await;
            let is_new = v == new;
            let is_old = old.as_ref().is_some_and(|o| *o == v)
                || (old.is_none() && v == vec![crate::queries::UNSET_INPUT]);
            if !is_new && !is_old {
                return Err(fail(
                    "half_published",
                    format!("input {node}: a cancelled set_input left {v:?}, neither the old {old:?} nor the new {new:?} value"),
                ));
            }
            if is_new {
                self.model.inputs.insert(node, new);
            }
            self.model.clear_memo();
        }
        Ok(())
    }

    /// Several user-level requests as separate tasks.  `abort` = (task
    /// index, n): that task's request is dropped at its n-th suspension.
    pub(crate) async fn concurrent(
        &mut self,
        roots: &[u32],
        share_tracked: bool,
        abort: Option<(usize, u64)>,
    ) -> Result<(), Failure> {
        let roots: Vec<u32> = roots.iter().copied().filter(|r| self.askable(*r)).collect();
        let roots = &roots[..];
        if roots.is_empty() {
            return Ok(());
        }
        let engine = self.engine().clone();
        let prog = Arc::new(self.sc.program.clone());
        self.tracked = None;
        let shared = if share_tracked { Some(engine.clone().tracked().await) } else { None };
        for r in roots {
            self.model.user_request(*r);
            self.stats.user_requests += 1;
        }
        let mut handles = Vec::new();
        for (i, r) in roots.iter().copied().enumerate() {
            let eng = engine.clone();
            let prog = prog.clone();
            let te_shared = shared.clone();
            let abort_n = abort.and_then(|(t, n)| (t == i).then_some(n));
            handles.push(tokio::spawn(async move {
                sched::task_point("h_task_start", PK::Harness).await;
                let te = match te_shared {
                    Some(t) => t,
                    None => eng.tracked().await,
                };
                match abort_n {
                    Some(n) => match CancelAt::new(query_node(&te, &prog, r), n).await {
                        Cancelled::Completed(v, seen) => (r, Some(v), seen, false),
                        Cancelled::Dropped(seen) => (r, None, seen, true),
                    },
                    None => (r, Some(query_node(&te, &prog, r).await), 0, false),
                }
            }));
        }
        let mut results = Vec::new();
        let mut err = None;
        for h in handles {
            match h.await {
                Ok((r, v, seen, dropped)) => {
                    if abort.is_some() && (seen > 0 || dropped) {
                        self.suspensions_seen = self.suspensions_seen.max(seen);
                    }
                    if dropped {
                        self.fault_fired = true;
                    }
                    if let Some(v) = v {
                        results.push((r, v));
                    }
                }
                Err(e) => {
                    let msg = if e.is_panic() {
                        let p = e.into_panic();
                        p.downcast_ref::<&str>()
                            .map(|s| (*s).to_string())
                            .or_else(|| p.downcast_ref::<String>().cloned())
                            .unwrap_or_else(|| "<non-string payload>".into())
                    } else {
                        "task cancelled".to_string()
                    };
                    err = Some(msg);
                }
            }
        }
        drop(shared);
        if abort.is_some() {
            self.quiesce().await;
        }
        self.drain()?;
        self.model.request_end();
        if let Some(msg) = err {
            if !(self.tolerate_injected && msg.contains(INJECTED_PANIC)) {
                return Err(fail("panic", format!("a concurrent request panicked: {msg}")));
            }
        }
        if self.model.cyclic {
            // the request order of this epoch is no longer known to the model
            self.model.ambiguous = true;
        }
        for (r, v) in &results {
            self.model.serve(*r, v, "concurrent user")?;
        }
        if self.model.cyclic {
            // whatever the interleaving decided, it must be stable within
            // the epoch
            self.ensure_tracked(true).await;
            for (r, v) in &results {
                let te = self.tracked.as_ref().unwrap();
                let again = query_node(te, &self.sc.program, *r).await;
                self.drain()?;
                if again != *v {
                    return Err(fail(
                        "unstable_in_epoch",
                        format!("node {r} was served as {v:?} to a concurrent request and as {again:?} when asked again in the same epoch"),
                    ));
                }
            }
        }
        Ok(())
    }

    /// C04: one writer task, several reader tasks.
    pub(crate) async fn readers_writer(
        &mut self,
        sessions: &[(Vec<SessStep>, bool)],
        readers: &[Vec<Vec<u32>>],
        detach: u64,
    ) -> Result<(), Failure> {
        self.tracked = None;
        let engine = self.engine().clone();
        let prog = Arc::new(self.sc.program.clone());
        let log: Arc<Mutex<Vec<RwEv>>> = Arc::new(Mutex::new(Vec::new()));
        if detach != 0 {
            let mut inputs = self.sc.program.of_kind(crate::program::Kind::In);
            inputs.truncate(3);
            let l2 = log.clone();
            *self.h.helper.lock() = Some(HelperCfg {
                inputs,
                sink: Arc::new(move |e| l2.lock().push(RwEv::Helper(e))),
            });
        }
        // input states S_0 .. S_k
        let mut states: Vec<HashMap<u32, Val>> = vec![self.model.inputs.clone()];
        for (steps, _) in sessions {
            let mut st = states.last().unwrap().clone();
            for s in steps {
                if let SessStep::Set { node, val } = s {
                    st.insert(*node, val.clone());
                }
            }
            states.push(st);
        }
        let writer = {
            let engine = engine.clone();
            let log = log.clone();
            let sessions = sessions.to_vec();
            tokio::spawn(async move {
                for (j, (steps, commit)) in sessions.iter().enumerate() {
                    sched::task_point("h_writer_between", PK::Harness).await;
                    log.lock().push(RwEv::SessionCall(j + 1));
                    let mut s = engine.input_session().await;
                    log.lock().push(RwEv::SessionOpened(j + 1));
                    for st in steps {
                        if let SessStep::Set { node, val } = st {
                            sched::task_point("h_writer_step", PK::Harness).await;
                            let _ = s.set_input(In(*node), val.clone()).await;
                        }
                    }
                    if *commit {
                        s.commit().await;
                        log.lock().push(RwEv::CommitReturn(j + 1));
                    } else {
                        drop(s);
                    }
                }
            })
        };
        let mut rhandles = Vec::new();
        for (i, lives) in readers.iter().enumerate() {
            let engine = engine.clone();
            let prog = prog.clone();
            let log = log.clone();
            let lives = lives.clone();
            rhandles.push(tokio::spawn(async move {
                for (l, roots) in lives.iter().enumerate() {
                    sched::task_point("h_reader_between", PK::Harness).await;
                    log.lock().push(RwEv::TrackedCall(i, l));
                    let te = engine.clone().tracked().await;
                    log.lock().push(RwEv::TrackedReturn(i, l));
                    for (q, r) in roots.iter().enumerate() {
                        sched::task_point("h_reader_query", PK::Harness).await;
                        let m = mix3(detach, i as u64, l as u64, q as u64);
                        let n = if detach != 0 && m % 2 == 0 { 1 + (m >> 8) % 12 } else { 0 };
                        match CancelAt::new(query_node(&te, &prog, *r), n).await {
                            Cancelled::Completed(v, _) => {
                                log.lock().push(RwEv::Result(i, l, *r, v));
                            }
                            Cancelled::Dropped(_) => {
                                // the user gives up and lets go of the engine
                                log.lock().push(RwEv::Abandoned(i, l, *r));
                                break;
                            }
                        }
                    }
                    drop(te);
                }
            }));
        }
        let mut panicked = None;
        if let Err(e) = writer.await {
            panicked = Some(format!("writer task: {e}"));
        }
        for h in rhandles {
            if let Err(e) = h.await {
                panicked = Some(format!("reader task: {e}"));
            }
        }
        *self.h.helper.lock() = None;
        if let Some(p) = panicked {
            return Err(fail("panic", p));
        }
        self.quiesce().await;
        // the harness log is not fed to the sequential model in this phase
        self.cursor = self.h.st.lock().events.len();
        let evs = log.lock().clone();
        let pos = |pred: &dyn Fn(&RwEv) -> bool| evs.iter().position(|e| pred(e));
        let k = sessions.len();
        // completion position of session j: commit return, or (dropped) the
        // moment a later session got hold of the phase lock
        let complete_pos = |j: usize| -> Option<usize> {
            pos(&|e| matches!(e, RwEv::CommitReturn(x) if *x == j)).or_else(|| {
                pos(&|e| matches!(e, RwEv::SessionOpened(x) if *x > j))
            })
        };
        let mut lives_checked = 0u64;
        let mut lives_overlapping = 0u64;
        for (i, lives) in readers.iter().enumerate() {
            for (l, _) in lives.iter().enumerate() {
                let call = pos(&|e| matches!(e, RwEv::TrackedCall(a, b) if *a == i && *b == l)).unwrap();
                let ret = pos(&|e| matches!(e, RwEv::TrackedReturn(a, b) if *a == i && *b == l)).unwrap();
                let lo = (1..=k).take_while(|j| complete_pos(*j).is_some_and(|p| p < call)).count();
                let hi = (1..=k)
                    .take_while(|j| {
                        pos(&|e| matches!(e, RwEv::SessionCall(x) if x == j)).is_some_and(|p| p < ret)
                    })
                    .count();
                let results: Vec<(u32, Val)> = evs
                    .iter()
                    .filter_map(|e| match e {
                        RwEv::Result(a, b, r, v) if *a == i && *b == l => Some((*r, v.clone())),
                        _ => None,
                    })
                    .collect();
                lives_checked += 1;
                if hi > lo {
                    lives_overlapping += 1;
                }
                let ok = (lo..=hi).any(|cand| {
                    let mut m = Model::new(&self.sc.program);
                    m.inputs = states[cand].clone();
                    m.world = self.model.world.clone();
                    m.captured = self.model.captured.clone();
                    results.iter().all(|(r, v)| m.fs(*r) == *v)
                });
                if !ok {
                    return Err(fail(
                        "snapshot_inconsistent",
                        format!(
                            "reader {i} life {l}: results {results:?} are not the from-scratch values of any single committed input state S_k with {lo} <= k <= {hi} (states {:?})",
                            &states[lo..=hi]
                        ),
                    ));
                }
            }
        }
        // detached helpers: every helper is a reader of its own; whatever it
        // read must belong to one committed input state (no lower bound is
        // claimed: the helper does not know whose engine it cloned)
        let mut helpers: Vec<u64> = Vec::new();
        for e in &evs {
            if let RwEv::Helper(HelperEv::Start(h)) = e {
                helpers.push(*h);
            }
        }
        let abandoned = evs.iter().filter(|e| matches!(e, RwEv::Abandoned(..))).count() as u64;
        let mut helpers_outliving = 0u64;
        for hid in &helpers {
            let Some(done) = pos(&|e| matches!(e, RwEv::Helper(HelperEv::Done(x)) if x == hid)) else {
                return Err(fail(
                    "panic",
                    format!("helper task {hid} of an executor started and never finished its reads"),
                ));
            };
            let start = pos(&|e| matches!(e, RwEv::Helper(HelperEv::Start(x)) if x == hid)).unwrap();
            if evs[start..done].iter().any(|e| matches!(e, RwEv::Abandoned(..))) {
                helpers_outliving += 1;
            }
            let hi = (1..=k)
                .take_while(|j| {
                    pos(&|e| matches!(e, RwEv::SessionCall(x) if x == j)).is_some_and(|p| p < done)
                })
                .count();
            let reads: Vec<(u32, Val)> = evs
                .iter()
                .filter_map(|e| match e {
                    RwEv::Helper(HelperEv::Read(x, n, v)) if x == hid => Some((*n, v.clone())),
                    _ => None,
                })
                .collect();
            let ok = (0..=hi).any(|cand| {
                reads.iter().all(|(n, v)| states[cand].get(n).is_some_and(|s| s == v))
            });
            if !ok {
                return Err(fail(
                    "snapshot_inconsistent",
                    format!(
                        "helper task {hid} (a clone of an executor's engine in a spawned task): reads {reads:?} are not the inputs of any single committed state S_k with k <= {hi} (states {:?})",
                        &states[0..=hi]
                    ),
                ));
            }
        }
        *self.stats.probes.entry("c04_helpers_checked".into()).or_insert(0) += helpers.len() as u64;
        *self.stats.probes.entry("c04_requests_abandoned".into()).or_insert(0) += abandoned;
        *self.stats.probes.entry("c04_helpers_alive_at_abandon".into()).or_insert(0) += helpers_outliving;
        *self.stats.probes.entry("c04_lives_checked".into()).or_insert(0) += lives_checked;
        *self.stats.probes.entry("c04_lives_overlapping_session".into()).or_insert(0) += lives_overlapping;
        // bring the sequential model up to date
        for st in &states[1..] {
            self.model.begin_epoch();
            self.h.epoch.fetch_add(1, std::sync::atomic::Ordering::SeqCst);
            self.stats.epochs += 1;
            self.model.inputs = st.clone();
            self.input_history.push(st.clone());
        }
        self.model.clear_memo();
        Ok(())
    }

    pub(crate) async fn faulted(&mut self, op: &Op, fault: &Fault) -> Result<(), Failure> {
        match (op, fault) {
            (Op::Query { root, .. }, _) if !self.askable(*root) => Ok(()),
            (Op::Query { root, new_tracked }, Fault::Cancel { n, .. }) => {
                self.ensure_tracked(*new_tracked).await;
                self.model.user_request(*root);
                self.stats.user_requests += 1;
                let te = self.tracked.clone().unwrap();
                let prog = self.sc.program.clone();
                let r = *root;
                let out = CancelAt::new(async move { query_node(&te, &prog, r).await }, *n).await;
                match out {
                    Cancelled::Completed(v, seen) => {
                        self.suspensions_seen = seen;
                        self.drain()?;
                        self.model.request_end();
                        self.model.serve(*root, &v, "user")?;
                    }
                    Cancelled::Dropped(seen) => {
                        self.suspensions_seen = seen;
                        self.fault_fired = true;
                        self.tracked = None;
                        if !self.sc.cfg.no_quiesce {
                            self.quiesce().await;
                        }
                        self.drain()?;
                        self.model.request_end();
                    }
                }
                Ok(())
            }
            (Op::Concurrent { roots, share_tracked }, Fault::Cancel { n, .. }) => {
                self.concurrent(roots, *share_tracked, Some((0, *n))).await
            }
            (Op::Concurrent { roots, share_tracked }, Fault::Panic { node, k }) => {
                {
                    let mut st = self.h.st.lock();
                    let base = st.inv_count.get(node).copied().unwrap_or(0);
                    st.panic_at = Some((*node, base + *k));
                }
                let before = self.h.st.lock().injected_panics;
                self.tolerate_injected = true;
                let r = self.concurrent(roots, *share_tracked, None).await;
                self.tolerate_injected = false;
                let injected = self.h.st.lock().injected_panics > before;
                self.h.st.lock().panic_at = None;
                self.tracked = None;
                self.quiesce().await;
                let _ = simkit::panics::drain();
                if injected {
                    self.fault_fired = true;
                }
                r
            }
            (Op::Session { steps, commit }, Fault::Cancel { target, n }) => {
                self.session_faulted(steps, *commit, Some((*target, *n))).await
            }
            (Op::Query { root, new_tracked }, Fault::Panic { node, k }) => {
                self.ensure_tracked(*new_tracked).await;
                {
                    let mut st = self.h.st.lock();
                    let base = st.inv_count.get(node).copied().unwrap_or(0);
                    st.panic_at = Some((*node, base + *k));
                }
                self.model.user_request(*root);
                self.stats.user_requests += 1;
                let te = self.tracked.clone().unwrap();
                let prog = self.sc.program.clone();
                let r = *root;
                let before = self.h.st.lock().injected_panics;
                let out = AssertUnwindSafe(async move { query_node(&te, &prog, r).await })
                    .catch_unwind()
                    .await;
                let injected = self.h.st.lock().injected_panics > before;
                self.h.st.lock().panic_at = None;
                self.tracked = None;
                self.quiesce().await;
                // panics recorded up to here belong to the propagation of the
                // injected one
                let recs = simkit::panics::drain();
                match out {
                    Ok(v) => {
                        if injected {
                            return Err(fail(
                                "panic_swallowed",
                                format!("executor of node {node} panicked but the request for {root} returned {v:?}"),
                            ));
                        }
                        self.drain()?;
                        self.model.request_end();
                        self.model.serve(*root, &v, "user")?;
                    }
                    Err(p) => {
                        let msg = p
                            .downcast_ref::<&str>()
                            .map(|s| (*s).to_string())
                            .or_else(|| p.downcast_ref::<String>().cloned())
                            .unwrap_or_default();
                        if !injected {
                            return Err(fail("panic", format!("request panicked without an injected panic: {msg}")));
                        }
                        self.fault_fired = true;
                        if !recs.iter().any(|r| r.message.contains(INJECTED_PANIC)) {
                            return Err(fail("harness_error", "injected panic not recorded".into()));
                        }
                        self.drain()?;
                        self.model.request_end();
                    }
                }
                Ok(())
            }
            (o, f) => Err(fail("harness_error", format!("unsupported fault combination {o:?} / {f:?}"))),
        }
    }
}
