//! engine_sim: deterministic simulation of the real qbice engine.
//!
//!   engine_sim batch  --prop C01 --seed 1 --worker 0 --workers 16 --budget-s 60 --tier quick
//!   engine_sim replay <file>
//!   engine_sim shrink <file> <out>

mod generate;
mod model;
mod program;
mod queries;
mod run;
mod scenario;
mod shrink;

use std::{
    collections::{BTreeMap, HashSet},
    io::Write,
    time::Instant,
};

use simkit::{Rng, label, mix};

use crate::{
    run::{Outcome, run_scenario},
    scenario::{ReplayFile, RunCfg, Scenario, SchedCfg, Storage},
};

fn arg(args: &[String], name: &str) -> Option<String> {
    args.iter().position(|a| a == name).and_then(|i| args.get(i + 1).cloned())
}

pub fn make_scenario(prop: &str, run_seed: u64, thorough: bool) -> Scenario {
    let root = Rng::new(run_seed);
    let mut w = root.split(label("workload"));
    let mut s = root.split(label("schedule-cfg"));
    let params = if thorough { generate::GenParams::thorough() } else { generate::GenParams::quick() };
    match prop {
        "C01" | "C03" => {
            let program = generate::gen_program(&mut w, &params);
            let ops = generate::gen_history(&mut w, &program, &params);
            let strict = w.chance(1, 2);
            let storage = if w.chance(1, 5) {
                Storage::Db {
                    cache_cap: *w.pick(&[1, 2, 4, 8]),
                    ser_workers: w.range(1, 2) as usize,
                    group_max: w.range(1, 4) as u32,
                }
            } else {
                Storage::Mem
            };
            let ops = if matches!(storage, Storage::Db { .. }) {
                let d = w.range(0, 3) as u32;
                generate::sprinkle(&mut w, ops, 0, d)
            } else {
                ops
            };
            let sched = if s.chance(1, 2) {
                SchedCfg::Off
            } else {
                SchedCfg::Uniform { num: 1, den: 4, k: 2, site_salt: None, preempt: false }
            };
            Scenario {
                program,
                ops,
                cfg: RunCfg {
                    storage,
                    strict,
                    yield_every: if s.chance(1, 4) { Some(s.below(3) as usize) } else { None },
                    sched,
                    cyclic: false,
                    check_c03: true,
                    crash_check: false,
                    sched_seed: run_seed,
                },
            }
        }
        "C07" | "C08" => {
            let mut params = params.clone();
            if prop == "C08" {
                params.allow_ex = false;
                params.max_nodes = params.max_nodes.min(if thorough { 20 } else { 9 });
                params.max_ops = params.max_ops.min(if thorough { 16 } else { 8 });
            }
            let program = generate::gen_program(&mut w, &params);
            let ops = generate::gen_history(&mut w, &program, &params);
            let restarts = if prop == "C07" { w.range(1, 3) as u32 } else { w.range(0, 1) as u32 };
            let drains = w.range(0, 4) as u32;
            let ops = generate::sprinkle(&mut w, ops, restarts, drains);
            let strict = w.chance(2, 3);
            Scenario {
                program,
                ops,
                cfg: RunCfg {
                    storage: Storage::Db {
                        cache_cap: *w.pick(&[1, 1, 2, 3, 4, 8, 16, 64]),
                        ser_workers: w.range(1, 3) as usize,
                        group_max: w.range(1, 6) as u32,
                    },
                    strict,
                    yield_every: None,
                    sched: if s.chance(1, 2) {
                        SchedCfg::Off
                    } else {
                        SchedCfg::Uniform { num: 1, den: 5, k: 2, site_salt: None, preempt: false }
                    },
                    cyclic: false,
                    check_c03: true,
                    crash_check: prop == "C08",
                    sched_seed: run_seed,
                },
            }
        }
        _ => panic!("unknown property {prop}"),
    }
}

fn shape_hash(sc: &Scenario) -> u64 {
    let j = serde_json::to_vec(&(&sc.program, &sc.ops)).unwrap();
    simkit::fnv(&j)
}

fn replay_of(prop: &str, seed: u64, sc: &Scenario, out: &Outcome) -> ReplayFile {
    let f = out.failure.as_ref().unwrap();
    ReplayFile {
        property: prop.to_string(),
        harness: "engine_sim".into(),
        seed,
        scenario: sc.clone(),
        decisions: Some(out.decisions.clone()),
        class: f.class.clone(),
        message: f.msg.clone(),
        known: f.known.clone(),
    }
}

fn batch(args: &[String]) {
    let prop = arg(args, "--prop").expect("--prop");
    let seed: u64 = arg(args, "--seed").and_then(|s| s.parse().ok()).unwrap_or(1);
    let worker: u64 = arg(args, "--worker").and_then(|s| s.parse().ok()).unwrap_or(0);
    let workers: u64 = arg(args, "--workers").and_then(|s| s.parse().ok()).unwrap_or(1);
    let budget: f64 = arg(args, "--budget-s").and_then(|s| s.parse().ok()).unwrap_or(10.0);
    let max_runs: u64 = arg(args, "--max-runs").and_then(|s| s.parse().ok()).unwrap_or(u64::MAX);
    let thorough = arg(args, "--tier").as_deref() == Some("thorough");
    let base = mix(seed, label(&prop));
    let start = Instant::now();
    let stdout = std::io::stdout();
    let mut runs = 0u64;
    let mut nontrivial_shapes: HashSet<u64> = HashSet::new();
    let mut traces: HashSet<u64> = HashSet::new();
    let mut exposed = 0u64;
    let mut strict_runs = 0u64;
    let mut failures = 0u64;
    let mut known = 0u64;
    let mut totals: BTreeMap<String, u64> = BTreeMap::new();
    let mut probes: BTreeMap<String, u64> = BTreeMap::new();
    let mut samples: Vec<serde_json::Value> = Vec::new();
    let mut i = worker;
    while runs < max_runs && start.elapsed().as_secs_f64() < budget {
        let run_seed = mix(base, i);
        let sc = make_scenario(&prop, run_seed, thorough);
        let out = run_scenario(&sc, None);
        runs += 1;
        if sc.cfg.strict {
            strict_runs += 1;
        }
        if out.exposed.is_some() {
            exposed += 1;
        }
        let sh = shape_hash(&sc);
        if out.nontrivial {
            nontrivial_shapes.insert(sh);
        }
        traces.insert(mix(sh, out.trace_hash));
        let st = serde_json::to_value(&out.stats).unwrap();
        for (k, v) in st.as_object().unwrap() {
            if let Some(n) = v.as_u64() {
                *totals.entry(k.clone()).or_insert(0) += n;
            }
        }
        for (k, v) in &out.stats.probes {
            *probes.entry(k.clone()).or_insert(0) += v;
        }
        if samples.len() < 2 && out.nontrivial {
            samples.push(serde_json::json!({"run_seed": run_seed, "scenario": sc}));
        }
        if let Some(f) = &out.failure {
            failures += 1;
            if f.known.is_some() {
                known += 1;
            }
            // at most a handful of full replays per worker
            if failures <= 20 || f.known.is_none() {
                let rf = replay_of(&prop, run_seed, &sc, &out);
                let mut o = stdout.lock();
                writeln!(o, "{}", serde_json::json!({"type": "failure", "i": i, "replay": rf})).unwrap();
            }
        }
        i += workers;
    }
    let mut o = stdout.lock();
    writeln!(
        o,
        "{}",
        serde_json::json!({
            "type": "summary", "prop": prop, "worker": worker, "runs": runs,
            "strict_runs": strict_runs, "exposed_runs": exposed,
            "failures": failures, "known": known,
            "nontrivial_shapes": nontrivial_shapes.iter().collect::<Vec<_>>(),
            "traces": traces.len(),
            "totals": totals, "probes": probes, "samples": samples,
            "wall_s": start.elapsed().as_secs_f64(),
        })
    )
    .unwrap();
}

fn replay(args: &[String]) -> i32 {
    let path = &args[0];
    let rf: ReplayFile = serde_json::from_str(&std::fs::read_to_string(path).expect("read replay"))
        .expect("parse replay");
    let out = run_scenario(&rf.scenario, rf.decisions.as_deref());
    let (class, msg, known) = match &out.failure {
        Some(f) => (f.class.clone(), f.msg.clone(), f.known.clone()),
        None => ("none".into(), String::new(), None),
    };
    let reproduced = class == rf.class;
    println!(
        "{}",
        serde_json::json!({"type": "replay", "file": path, "expected_class": rf.class,
            "class": class, "message": msg, "known": known, "reproduced": reproduced,
            "exposed": out.exposed})
    );
    if reproduced { 0 } else { 3 }
}

fn main() {
    let args: Vec<String> = std::env::args().skip(1).collect();
    let code = match args.first().map(String::as_str) {
        Some("batch") => {
            batch(&args[1..]);
            0
        }
        Some("replay") => replay(&args[1..]),
        Some("shrink") => shrink::shrink_cmd(&args[1..]),
        Some("gen") => {
            let prop = arg(&args, "--prop").unwrap();
            let seed: u64 = arg(&args, "--seed").unwrap().parse().unwrap();
            println!("{}", serde_json::to_string_pretty(&make_scenario(&prop, seed, false)).unwrap());
            0
        }
        _ => {
            eprintln!("usage: engine_sim batch|replay|shrink ...");
            2
        }
    };
    std::process::exit(code);
}
