//! engine_sim: deterministic simulation of the real qbice engine.
//!
//!   engine_sim batch  --prop C01 --seed 1 --worker 0 --workers 16 --budget-s 60 --tier quick
//!   engine_sim replay <file>
//!   engine_sim shrink <file> <out>

mod generate;
mod model;
mod program;
mod queries;
mod run;
mod run_conc;
mod scenario;
mod shrink;

use std::{
    collections::{BTreeMap, HashSet},
    io::Write,
    time::Instant,
};

use simkit::{Rng, label, mix};

use crate::{
    run::{Outcome, run_scenario},
    scenario::{ReplayFile, RunCfg, Scenario, SchedCfg, Storage},
};

fn arg(args: &[String], name: &str) -> Option<String> {
    args.iter().position(|a| a == name).and_then(|i| args.get(i + 1).cloned())
}

pub fn make_scenario(prop: &str, run_seed: u64, thorough: bool) -> Scenario {
    let root = Rng::new(run_seed);
    let mut w = root.split(label("workload"));
    let mut s = root.split(label("schedule-cfg"));
    let params = if thorough { generate::GenParams::thorough() } else { generate::GenParams::quick() };
    // abandoned sub-queries (`Expr::Race`) in a share of the programs; drawn
    // from a stream of its own so that the other streams are unchanged
    {
        let mut rr = root.split(label("race"));
        // (not for C03: its quantifier excludes cancellation, and an
        // abandoned sub-query is one)
        let on = match prop {
            "C05" => rr.chance(1, 3),
            "C01" | "C02" | "C07" => rr.chance(1, 6),
            _ => false,
        };
        generate::RACE.with(|c| c.set(on));
    }
    generate::clear_guards();
    let race_on = generate::RACE.with(std::cell::Cell::get);
    {
        let mut pr = root.split(label("partial"));
        let on = match prop {
            "C05" => pr.chance(1, 3),
            "C01" | "C07" => pr.chance(1, 8),
            _ => false,
        };
        generate::PARTIAL.with(|c| c.set(on));
        if on && prop == "C05" {
            // the guard pattern together with abandoned sub-queries
            generate::RACE.with(|c| c.set(true));
        }
    }
    let race_on = generate::RACE.with(std::cell::Cell::get);
    let wide = {
        let mut wr = root.split(label("wide"));
        matches!(prop, "C01" | "C03" | "C02" | "C07") && (std::env::var("VERIF_FORCE_WIDE").is_ok() || wr.chance(1, 10))
    };
    // CPU affinity of the run, from a stream of its own
    let cpus = {
        let mut cr = root.split(label("cpus"));
        match prop {
            // wide shapes exist for the chunking of parallel work: most of
            // them run with few CPUs
            "C01" | "C02" | "C03" | "C07" if wide => match cr.below(4) {
                0 | 1 => Some(1),
                2 => Some(2),
                _ => None,
            },
            "C01" | "C02" | "C03" | "C05" | "C07" => match cr.below(8) {
                0 | 1 => Some(1),
                2 => Some(2),
                _ => None,
            },
            _ => None,
        }
    };
    let guard_shape = {
        let mut gr = root.split(label("guard-shape"));
        match prop {
            "C05" => gr.chance(1, 8),
            "C01" | "C07" => gr.chance(1, 20),
            _ => false,
        }
    };
    match prop {
        "C01" | "C03" => {
            let (program, ops) = if guard_shape {
                let p = generate::gen_program_guard(&mut w);
                let o = generate::gen_history_guard(&mut w, &p);
                (p, o)
            } else if wide {
                let p = generate::gen_program_wide(&mut w);
                let o = generate::gen_history_wide(&mut w, &p);
                (p, o)
            } else if w.chance(3, 10) {
                let p = generate::gen_program_tfc(&mut w);
                let o = generate::gen_history_tfc(&mut w, &p);
                (p, o)
            } else {
                let p = generate::gen_program(&mut w, &params);
                let o = generate::gen_history(&mut w, &p, &params);
                (p, o)
            };
            let strict = w.chance(1, 2);
            let storage = if w.chance(1, 5) {
                Storage::Db {
                    cache_cap: *w.pick(&[1, 2, 4, 8]),
                    ser_workers: w.range(1, 2) as usize,
                    group_max: w.range(1, 4) as u32,
                }
            } else {
                Storage::Mem
            };
            let ops = if matches!(storage, Storage::Db { .. }) {
                let d = w.range(0, 3) as u32;
                generate::sprinkle(&mut w, ops, 0, d)
            } else {
                ops
            };
            let sched = if s.chance(1, 2) {
                SchedCfg::Off
            } else {
                SchedCfg::Uniform { num: 1, den: 4, k: 2, site_salt: None, preempt: false }
            };
            Scenario {
                program,
                ops,
                cfg: RunCfg {
                    storage,
                    strict,
                    yield_every: if s.chance(1, 4) { Some(s.below(3) as usize) } else { None },
                    sched,
                    cyclic: false,
                    check_c03: !race_on && !guard_shape,
                    crash_check: false,
                    sched_seed: run_seed,
                    no_values: false,
                    cpus,
                    no_quiesce: false,
                },
            }
        }
        "C02" => {
            let fanin = !wide && w.chance(1, 4);
            let program = if wide {
                generate::gen_program_wide(&mut w)
            } else if fanin {
                let k = if thorough && w.chance(1, 10) { w.range(1025, 1040) } else { w.range(33, 40) };
                generate::gen_fanin_program(&mut w, k as u32)
            } else {
                generate::gen_program(&mut w, &params)
            };
            let ops = generate::gen_concurrent_history(&mut w, &program, &params, fanin);
            let sched = match s.below(4) {
                0 => SchedCfg::Uniform { num: 1, den: 3, k: 3, site_salt: None, preempt: true },
                1 => SchedCfg::Uniform { num: 1, den: 2, k: 2, site_salt: Some(s.next_u64()), preempt: true },
                2 => SchedCfg::Uniform { num: 1, den: 8, k: 6, site_salt: None, preempt: true },
                _ => {
                    let d = s.range(1, 4);
                    SchedCfg::Pct {
                        points: (0..d).map(|_| s.range(1, 3000)).collect(),
                        burst: s.range(5, 60) as u32,
                        preempt: true,
                    }
                }
            };
            Scenario {
                program,
                ops,
                cfg: RunCfg {
                    storage: Storage::Mem,
                    strict: true,
                    yield_every: if s.chance(1, 4) { Some(s.below(3) as usize) } else { None },
                    sched,
                    cyclic: false,
                    check_c03: !race_on && !guard_shape,
                    crash_check: false,
                    sched_seed: run_seed,
                    no_values: false,
                    cpus,
                    no_quiesce: false,
                },
            }
        }
        "C04" => {
            let mut params = params.clone();
            params.plain = true;
            params.allow_ex = false;
            params.min_nodes = 4;
            let program = generate::gen_program(&mut w, &params);
            let ops = generate::gen_rw_history(&mut w, &program);
            let sched = match s.below(3) {
                0 => SchedCfg::Uniform { num: 1, den: 3, k: 3, site_salt: None, preempt: true },
                1 => SchedCfg::Uniform { num: 1, den: 2, k: 4, site_salt: Some(s.next_u64()), preempt: true },
                _ => {
                    let d = s.range(1, 4);
                    SchedCfg::Pct {
                        points: (0..d).map(|_| s.range(1, 1500)).collect(),
                        burst: s.range(5, 40) as u32,
                        preempt: true,
                    }
                }
            };
            Scenario {
                program,
                ops,
                cfg: RunCfg {
                    storage: Storage::Mem,
                    strict: false,
                    yield_every: None,
                    sched,
                    cyclic: false,
                    check_c03: false,
                    crash_check: false,
                    sched_seed: run_seed,
                    no_values: false,
                    cpus,
                    no_quiesce: false,
                },
            }
        }
        "C05" => {
            let mut params = params.clone();
            params.allow_ex = false;
            params.max_nodes = params.max_nodes.min(10);
            // 5, 6: concurrent requests in free mode with one of them
            // cancelled / an executor panicking; values are not judged there
            let kind = w.below(7);
            let conc_free = kind >= 5;
            let program = if guard_shape {
                generate::gen_program_guard(&mut w)
            } else if kind == 4 || w.chance(if conc_free { 4 } else { 2 }, 5) {
                generate::gen_program_tfc(&mut w)
            } else {
                generate::gen_program(&mut w, &params)
            };
            // guard shapes: the "fault" is the sub-query an executor abandons
            let ops = if guard_shape {
                generate::gen_history_guard(&mut w, &program)
            } else if kind == 4 {
                generate::gen_pass_panic_history(&mut w, &program)
            } else {
                generate::gen_fault_history(&mut w, &program, &params, kind)
            };
            let conc_free = conc_free && !guard_shape;
            let storage = if w.chance(3, 10) {
                Storage::Db { cache_cap: *w.pick(&[1, 4, 16]), ser_workers: 1, group_max: w.range(1, 3) as u32 }
            } else {
                Storage::Mem
            };
            Scenario {
                program,
                ops,
                cfg: RunCfg {
                    storage,
                    // strict mode keeps the oracle exemption-free; free mode
                    // lets the faulted request itself run the engine's
                    // firewall-repair and backward-projection passes
                    // (concurrent phases only in strict mode: the coverage
                    // model attributes a repair pass to one request at a time)
                    strict: !conc_free && (kind == 1 || w.chance(1, 2)),
                    yield_every: if s.chance(1, 3) { Some(s.below(2) as usize) } else { None },
                    // await hooks only: a future is never dropped at a point
                    // where the real code cannot be suspended
                    sched: if s.chance(1, 3) {
                        SchedCfg::Off
                    } else {
                        SchedCfg::Uniform { num: 1, den: 2, k: 1, site_salt: None, preempt: false }
                    },
                    cyclic: false,
                    check_c03: false,
                    crash_check: false,
                    sched_seed: run_seed,
                    no_values: conc_free,
                    cpus,
                    no_quiesce: { let mut qr = root.split(label("no-quiesce")); qr.chance(1, 2) },
                },
            }
        }
        "C06" => {
            let conc = w.chance(1, 3);
            let with_fw = { let mut fr = root.split(label("cyclic-fw")); fr.chance(1, 5) };
            let program = generate::gen_cyclic_program(&mut w, with_fw);
            let ops = generate::gen_cyclic_history(&mut w, &program, conc);
            Scenario {
                program,
                ops,
                cfg: RunCfg {
                    storage: Storage::Mem,
                    // firewalls in cyclic programs only with the warm-up pass (free mode
                    // meets KF-C01-1, whose exposure model does not cover cycles)
                    strict: with_fw,
                    yield_every: if s.chance(1, 4) { Some(s.below(3) as usize) } else { None },
                    sched: if s.chance(1, 2) {
                        SchedCfg::Off
                    } else {
                        SchedCfg::Uniform { num: 1, den: 4, k: 2, site_salt: None, preempt: true }
                    },
                    cyclic: true,
                    check_c03: false,
                    crash_check: false,
                    sched_seed: run_seed,
                    no_values: false,
                    cpus,
                    no_quiesce: false,
                },
            }
        }
        "C07" | "C08" => {
            let mut params = params.clone();
            if prop == "C08" {
                params.allow_ex = false;
                params.max_nodes = params.max_nodes.min(if thorough { 20 } else { 9 });
                params.max_ops = params.max_ops.min(if thorough { 16 } else { 8 });
            }
            let program = generate::gen_program(&mut w, &params);
            let ops = generate::gen_history(&mut w, &program, &params);
            let restarts = if prop == "C07" { w.range(1, 3) as u32 } else { w.range(0, 1) as u32 };
            let drains = w.range(0, 4) as u32;
            let ops = generate::sprinkle(&mut w, ops, restarts, drains);
            let strict = w.chance(2, 3);
            Scenario {
                program,
                ops,
                cfg: RunCfg {
                    storage: Storage::Db {
                        cache_cap: *w.pick(&[1, 1, 2, 3, 4, 8, 16, 64]),
                        ser_workers: w.range(1, 3) as usize,
                        group_max: w.range(1, 6) as u32,
                    },
                    strict,
                    yield_every: None,
                    sched: if s.chance(1, 2) {
                        SchedCfg::Off
                    } else {
                        SchedCfg::Uniform { num: 1, den: 5, k: 2, site_salt: None, preempt: false }
                    },
                    cyclic: false,
                    check_c03: !race_on && !guard_shape,
                    crash_check: prop == "C08",
                    sched_seed: run_seed,
                    no_values: false,
                    cpus,
                    no_quiesce: false,
                },
            }
        }
        _ => panic!("unknown property {prop}"),
    }
}

/// set the fault parameter (cancellation index / panic invocation) of the
/// scenario's faulted operation
fn with_fault_param(sc: &Scenario, n: u64) -> Scenario {
    use crate::scenario::{Fault, Op};
    let mut sc = sc.clone();
    for op in &mut sc.ops {
        if let Op::Faulted { fault, .. } = op {
            match fault {
                Fault::Cancel { n: x, .. } => *x = n,
                Fault::Panic { k, .. } => *k = n as u32,
            }
        }
    }
    sc
}

fn fault_name(sc: &Scenario) -> Option<String> {
    use crate::scenario::{Fault, Op, Target};
    sc.ops.iter().find_map(|op| match op {
        Op::Faulted { op, fault } => Some(match (op.as_ref(), fault) {
            (Op::Query { .. }, Fault::Cancel { .. }) => "cancel_query".to_string(),
            (Op::Concurrent { .. }, Fault::Cancel { .. }) => "abort_one_of_concurrent".to_string(),
            (_, Fault::Cancel { target: Target::OpenSession, .. }) => "cancel_input_session_call".to_string(),
            (_, Fault::Cancel { target: Target::Commit, .. }) => "cancel_commit".to_string(),
            (_, Fault::Cancel { target: Target::SessionStep(_), .. }) => "cancel_set_input".to_string(),
            (_, Fault::Panic { .. }) => "executor_panic".to_string(),
            _ => "other".to_string(),
        }),
        _ => None,
    })
}

/// KF-C06-1: every failure of a cyclic-mode run whose program has a static
/// dependency cycle through a firewall belongs to that finding
fn kf_c06_1(sc: &Scenario) -> Option<String> {
    (sc.cfg.cyclic && sc.program.static_cycle_through_firewall()).then(|| "KF-C06-1".to_string())
}

fn is_panic_fault(sc: &Scenario) -> bool {
    use crate::scenario::{Fault, Op};
    sc.ops.iter().any(|op| matches!(op, Op::Faulted { fault: Fault::Panic { .. }, .. }))
}

fn shape_hash(sc: &Scenario) -> u64 {
    let j = serde_json::to_vec(&(&sc.program, &sc.ops)).unwrap();
    simkit::fnv(&j)
}

fn replay_of(prop: &str, seed: u64, sc: &Scenario, out: &Outcome) -> ReplayFile {
    let f = out.failure.as_ref().unwrap();
    ReplayFile {
        property: prop.to_string(),
        harness: "engine_sim".into(),
        seed,
        scenario: sc.clone(),
        decisions: Some(out.decisions.clone()),
        class: f.class.clone(),
        message: f.msg.clone(),
        known: f.known.clone(),
        kill_at: None,
    }
}

static CURRENT_RUN: std::sync::Mutex<Option<(Instant, String)>> = std::sync::Mutex::new(None);

/// the failure line to print if the process is aborted during the run in
/// flight (a panic that cannot unwind, e.g. in a destructor during unwinding)
static CURRENT_ABORT: std::sync::Mutex<Option<Vec<u8>>> = std::sync::Mutex::new(None);

extern "C" fn on_sigabrt(_sig: libc::c_int) {
    // best effort: the process is going down anyway
    if let Ok(g) = CURRENT_ABORT.try_lock() {
        if let Some(line) = g.as_ref() {
            unsafe {
                libc::write(1, line.as_ptr().cast(), line.len());
            }
        }
    }
    unsafe {
        libc::_exit(0);
    }
}

fn install_abort_reporter() {
    unsafe {
        libc::signal(libc::SIGABRT, on_sigabrt as usize);
    }
}

fn start_watchdog() {
    let limit = simkit::env_u64("VERIF_STUCK_S", 20);
    std::thread::spawn(move || {
        loop {
            std::thread::sleep(std::time::Duration::from_millis(500));
            let stuck = {
                let g = CURRENT_RUN.lock().unwrap();
                g.as_ref().and_then(|(t, j)| (t.elapsed().as_secs() >= limit).then(|| j.clone()))
            };
            if let Some(j) = stuck {
                // the simulation thread is blocked or spinning inside the
                // code under test: report the run in flight and stop this
                // worker (its last periodic summary stands)
                println!("{j}");
                std::process::exit(0);
            }
        }
    });
}

/// C08 on the shipped backends: a child process runs the history on RocksDB
/// / Fjall in a scratch directory and kills itself (SIGKILL) at the n-th
/// write-behind event; this process then opens the directory and checks what
/// it finds.  Returns (outcome of the recovery check, child was killed).
fn real_crash_run(sc: &Scenario, kill_at: u64) -> (Outcome, bool) {
    let dir = tempfile::Builder::new().prefix("verif_c08r_").tempdir().expect("tempdir");
    let dbdir = dir.path().join("db");
    std::fs::create_dir_all(&dbdir).unwrap();
    let scfile = dir.path().join("scenario.json");
    std::fs::write(&scfile, serde_json::to_vec(sc).unwrap()).unwrap();
    let exe = std::env::current_exe().unwrap();
    let mut child = std::process::Command::new(exe)
        .arg("child")
        .arg(&scfile)
        .arg(&dbdir)
        .arg(kill_at.to_string())
        .stdout(std::process::Stdio::null())
        .stderr(std::process::Stdio::null())
        .spawn()
        .expect("spawn child");
    let start = Instant::now();
    let status = loop {
        match child.try_wait() {
            Ok(Some(st)) => break Some(st),
            Ok(None) => {
                if start.elapsed().as_secs() > 60 {
                    let _ = child.kill();
                    let _ = child.wait();
                    break None;
                }
                std::thread::sleep(std::time::Duration::from_millis(2));
            }
            Err(_) => break None,
        }
    };
    use std::os::unix::process::ExitStatusExt;
    let killed = status.is_some_and(|s| s.signal() == Some(9));
    let hist = run::static_input_history(sc);
    let clean = status.is_some_and(|s| s.code() == Some(0));
    let out = run::run_real(sc, &dbdir, Some((hist, clean)));
    (out, killed)
}

fn real_variant(sc: &Scenario, r: &mut Rng) -> Scenario {
    let mut sc = sc.clone();
    sc.cfg.storage = Storage::Real {
        backend: if r.chance(1, 2) { "rocksdb".into() } else { "fjall".into() },
        cache_cap: *r.pick(&[1, 4, 64]),
    };
    sc.cfg.crash_check = false;
    // Strict mode only: in free mode the child can meet KF-C01-1 (a stale
    // value is then verified and stored as it is), and the parent, which
    // judges the store with a fresh model, cannot know that the run was
    // exposed - it reported the stored stale value as a crash inconsistency.
    sc.cfg.strict = true;
    sc.ops.retain(|o| !matches!(o, scenario::Op::Restart | scenario::Op::Drain));
    sc
}

fn child(args: &[String]) -> i32 {
    let sc: Scenario = serde_json::from_slice(&std::fs::read(&args[0]).expect("scenario")).expect("parse");
    let dir = std::path::PathBuf::from(&args[1]);
    let kill_at: u64 = args[2].parse().unwrap_or(0);
    queries::KILL_AT.store(kill_at, std::sync::atomic::Ordering::SeqCst);
    let out = run::run_real(&sc, &dir, None);
    if out.failure.is_some() { 1 } else { 0 }
}

fn batch(args: &[String]) {
    start_watchdog();
    install_abort_reporter();
    let prop = arg(args, "--prop").expect("--prop");
    let seed: u64 = arg(args, "--seed").and_then(|s| s.parse().ok()).unwrap_or(1);
    let worker: u64 = arg(args, "--worker").and_then(|s| s.parse().ok()).unwrap_or(0);
    let workers: u64 = arg(args, "--workers").and_then(|s| s.parse().ok()).unwrap_or(1);
    let budget: f64 = arg(args, "--budget-s").and_then(|s| s.parse().ok()).unwrap_or(10.0);
    let max_runs: u64 = arg(args, "--max-runs").and_then(|s| s.parse().ok()).unwrap_or(u64::MAX);
    let thorough = arg(args, "--tier").as_deref() == Some("thorough");
    let base = mix(seed, label(&prop));
    let start = Instant::now();
    let stdout = std::io::stdout();
    let mut runs = 0u64;
    let mut nontrivial_shapes: HashSet<u64> = HashSet::new();
    let mut traces: HashSet<u64> = HashSet::new();
    let mut exposed = 0u64;
    let mut strict_exposed = 0u64;
    let mut strict_runs = 0u64;
    let mut failures = 0u64;
    let mut known = 0u64;
    let mut totals: BTreeMap<String, u64> = BTreeMap::new();
    let mut probes: BTreeMap<String, u64> = BTreeMap::new();
    let mut samples: Vec<serde_json::Value> = Vec::new();
    let mut fault_counts: BTreeMap<String, u64> = BTreeMap::new();
    let emit_traces = args.iter().any(|a| a == "--emit-traces");
    let mut trace_list: Vec<(u64, u64)> = Vec::new();
    let mut last_emit = Instant::now();
    macro_rules! emit_summary {
        () => {{
            let mut o = stdout.lock();
            writeln!(
                o,
                "{}",
                serde_json::json!({
                    "type": "summary", "prop": prop, "worker": worker, "runs": runs,
                    "strict_runs": strict_runs, "exposed_runs": exposed, "strict_exposed_runs": strict_exposed,
                    "failures": failures, "known": known,
                    "nontrivial_shapes": nontrivial_shapes.iter().collect::<Vec<_>>(),
                    "traces": traces.len(),
                    "totals": totals, "probes": probes, "samples": samples,
                    "faults": fault_counts, "trace_list": trace_list,
                    "wall_s": start.elapsed().as_secs_f64(),
                })
            )
            .unwrap();
        }};
    }
    let mut i = worker;
    while runs < max_runs && start.elapsed().as_secs_f64() < budget {
        let run_seed = mix(base, i);
        let sc0 = make_scenario(if prop == "C08r" { "C08" } else { &prop }, run_seed, thorough);
        // C05: calibrate (count the suspension points of the target), then
        // enumerate every n within this scenario
        let mut variants: Vec<Scenario> = vec![sc0.clone()];
        if prop == "C05" && sc0.ops.iter().any(|o| matches!(o, crate::scenario::Op::Faulted { .. })) {
            let cal = run_scenario(&sc0, None);
            if cal.failure.is_none() {
                let cap: u64 = if thorough { 400 } else { 40 };
                if is_panic_fault(&sc0) {
                    variants = (0..3).map(|k| with_fault_param(&sc0, k)).collect();
                } else {
                    let n_max = cal.suspensions_seen;
                    *fault_counts.entry("calibrated_suspension_points".into()).or_insert(0) += n_max;
                    variants = if n_max <= cap {
                        (1..=n_max).map(|n| with_fault_param(&sc0, n)).collect()
                    } else {
                        let mut r = Rng::new(run_seed).split(label("fault"));
                        (0..cap).map(|_| with_fault_param(&sc0, r.range(1, n_max))).collect()
                    };
                    if n_max == 0 {
                        variants = vec![];
                    }
                }
            }
        }
        if prop == "C08r" {
            let mut fr = Rng::new(run_seed).split(label("fault"));
            let sc = real_variant(&make_scenario("C08", run_seed, thorough), &mut fr);
            let kill_at = fr.range(1, 120);
            let (out, killed) = real_crash_run(&sc, kill_at);
            runs += 1;
            *fault_counts.entry(if killed { "kill_9_during_pipeline".to_string() } else { "history_completed_before_kill_point".to_string() }).or_insert(0) += 1;
            if let Storage::Real { backend, .. } = &sc.cfg.storage {
                *totals.entry(format!("runs_{backend}")).or_insert(0) += 1;
            }
            if killed {
                nontrivial_shapes.insert(shape_hash(&sc) ^ kill_at);
            }
            for (k, v) in &out.stats.probes {
                if k.starts_with("recovered_") {
                    *totals.entry(format!("{k}_{}", if killed { "after_kill" } else { "after_clean_exit" })).or_insert(0) += v;
                }
            }
            if samples.is_empty() && killed {
                samples.push(serde_json::json!({"run_seed": run_seed, "kill_at": kill_at, "scenario": sc}));
            }
            if let Some(f) = &out.failure {
                failures += 1;
                let mut rf = replay_of(&prop, run_seed, &sc, &out);
                rf.property = "C08".into();
                rf.kill_at = Some(kill_at);
                let _ = f;
                let mut o = stdout.lock();
                writeln!(o, "{}", serde_json::json!({"type": "failure", "i": i, "replay": rf})).unwrap();
            }
            i += workers;
            continue;
        }
        for sc in variants {
        {
            let rf = ReplayFile {
                property: prop.clone(),
                harness: "engine_sim".into(),
                seed: run_seed,
                scenario: sc.clone(),
                decisions: None,
                class: "stuck".into(),
                message: "the simulation thread made no progress (blocked or spinning inside the code under test); wall-clock backstop".into(),
                known: kf_c06_1(&sc),
                kill_at: None,
            };
            *CURRENT_RUN.lock().unwrap() =
                Some((Instant::now(), serde_json::json!({"type": "failure", "i": i, "replay": rf}).to_string()));
            let mut rf = rf;
            rf.class = "abort".into();
            rf.message = "the process was aborted during this run (a panic that cannot unwind, or abort() inside the code under test)".into();
            *CURRENT_ABORT.lock().unwrap() =
                Some(format!("\n{}\n", serde_json::json!({"type": "failure", "i": i, "replay": rf})).into_bytes());
        }
        let out = run_scenario(&sc, None);
        *CURRENT_RUN.lock().unwrap() = None;
        *CURRENT_ABORT.lock().unwrap() = None;
        runs += 1;
        if out.fault_fired {
            if let Some(f) = fault_name(&sc) {
                *fault_counts.entry(f).or_insert(0) += 1;
            }
        }
        if sc.cfg.strict {
            strict_runs += 1;
        }
        if out.exposed.is_some() {
            exposed += 1;
            if sc.cfg.strict {
                strict_exposed += 1;
                if args.iter().any(|a| a == "--emit-exposed") && strict_exposed <= 2 {
                    println!("{}", serde_json::json!({"type": "exposed", "exposed": out.exposed, "scenario": sc, "replay": ReplayFile{property: prop.clone(), harness: "engine_sim".into(), seed: run_seed, scenario: sc.clone(), decisions: Some(out.decisions.clone()), class: "none".into(), message: String::new(), known: None, kill_at: None}}));
                }
            }
        }
        let sh = shape_hash(&sc);
        if out.nontrivial {
            nontrivial_shapes.insert(sh);
        }
        traces.insert(mix(sh, out.trace_hash));
        if emit_traces {
            let oh = simkit::fnv(
                format!("{:?}{:?}{:?}", out.failure.as_ref().map(|f| &f.class), out.stats.serves, out.stats.executions).as_bytes(),
            );
            if std::env::var("VERIF_DEBUG").is_ok() {
                eprintln!("TRACE i={i} trace_hash={} serves={} executions={} failure={:?}", out.trace_hash, out.stats.serves, out.stats.executions, out.failure.as_ref().map(|f| &f.class));
            }
            trace_list.push((i, mix(out.trace_hash, oh)));
        }
        let st = serde_json::to_value(&out.stats).unwrap();
        for (k, v) in st.as_object().unwrap() {
            if let Some(n) = v.as_u64() {
                *totals.entry(k.clone()).or_insert(0) += n;
            }
        }
        for (k, v) in &out.stats.probes {
            *probes.entry(k.clone()).or_insert(0) += v;
        }
        if samples.len() < 2 && out.nontrivial {
            samples.push(serde_json::json!({"run_seed": run_seed, "scenario": sc}));
        }
        if let Some(f) = &out.failure {
            failures += 1;
            if f.known.is_some() {
                known += 1;
            }
            // at most a handful of full replays per worker
            if failures <= 20 || f.known.is_none() {
                let rf = replay_of(&prop, run_seed, &sc, &out);
                let mut o = stdout.lock();
                writeln!(o, "{}", serde_json::json!({"type": "failure", "i": i, "replay": rf})).unwrap();
            }
        }
        }
        if last_emit.elapsed().as_secs() >= 5 {
            emit_summary!();
            last_emit = Instant::now();
        }
        i += workers;
    }
    emit_summary!();
}

fn replay(args: &[String]) -> i32 {
    let path = &args[0];
    let rf: ReplayFile = serde_json::from_str(&std::fs::read_to_string(path).expect("read replay"))
        .expect("parse replay");
    {
        // backstop against executions that block the simulation thread
        // itself (invisible to the quiescence detector)
        let limit = simkit::env_u64("VERIF_STUCK_S", 20);
        let expected = rf.class.clone();
        let path = path.clone();
        let known = kf_c06_1(&rf.scenario);
        std::thread::spawn(move || {
            std::thread::sleep(std::time::Duration::from_secs(limit));
            let reproduced = expected == "stuck";
            println!(
                "{}",
                serde_json::json!({"type": "replay", "file": path, "expected_class": expected,
                    "class": "stuck", "message": format!("the simulation thread made no progress for {limit} s of wall-clock time (blocked or spinning inside the code under test)"),
                    "known": known, "reproduced": reproduced, "exposed": null})
            );
            std::process::exit(if reproduced { 0 } else { 3 });
        });
    }
    {
        let reproduced = rf.class == "abort";
        *CURRENT_ABORT.lock().unwrap() = Some(
            format!(
                "\n{}\n",
                serde_json::json!({"type": "replay", "file": path, "expected_class": rf.class,
                    "class": "abort", "message": "the process was aborted during the replay (a panic that cannot unwind, or abort() inside the code under test)",
                    "known": null, "reproduced": reproduced, "exposed": null})
            )
            .into_bytes(),
        );
        install_abort_reporter();
    }
    let out = if matches!(rf.scenario.cfg.storage, Storage::Real { .. }) {
        // the backends' own threads are not scheduled: several attempts
        let mut last = None;
        for _ in 0..5 {
            let (o, _) = real_crash_run(&rf.scenario, rf.kill_at.unwrap_or(1));
            let hit = o.failure.as_ref().is_some_and(|f| f.class == rf.class);
            last = Some(o);
            if hit {
                break;
            }
        }
        last.unwrap()
    } else {
        run_scenario(&rf.scenario, rf.decisions.as_deref())
    };
    let (class, msg, known) = match &out.failure {
        Some(f) => (f.class.clone(), f.msg.clone(), f.known.clone()),
        None => ("none".into(), String::new(), None),
    };
    let reproduced = class == rf.class;
    println!(
        "{}",
        serde_json::json!({"type": "replay", "file": path, "expected_class": rf.class,
            "class": class, "message": msg, "known": known, "reproduced": reproduced,
            "exposed": out.exposed})
    );
    if reproduced { 0 } else { 3 }
}

fn main() {
    let args: Vec<String> = std::env::args().skip(1).collect();
    let code = match args.first().map(String::as_str) {
        Some("batch") => {
            batch(&args[1..]);
            0
        }
        Some("replay") => replay(&args[1..]),
        Some("child") => child(&args[1..]),
        Some("shrink") => shrink::shrink_cmd(&args[1..]),
        Some("gen") => {
            let prop = arg(&args, "--prop").unwrap();
            let seed: u64 = arg(&args, "--seed").unwrap().parse().unwrap();
            println!("{}", serde_json::to_string_pretty(&make_scenario(&prop, seed, false)).unwrap());
            0
        }
        _ => {
            eprintln!("usage: engine_sim batch|replay|shrink ...");
            2
        }
    };
    std::process::exit(code);
}
