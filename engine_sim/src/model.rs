//! Oracles: the from-scratch interpreter, the per-invocation justification
//! rule (C03) and the coverage / exposure model used to classify KF-C01-1.

use std::{
    cell::RefCell,
    collections::{HashMap, HashSet},
};

use futures::FutureExt;

use crate::{
    program::{Abort, BoxFut, Kind, Program, Reader, Val, eval},
    queries::{Ev, Inv},
};

#[derive(Clone, Debug)]
pub struct ExecRec {
    pub seq: u64,
    pub epoch: u64,
    pub reads: Vec<(u32, Val)>,
    pub value: Val,
}

impl ExecRec {
    pub fn deps(&self) -> Vec<u32> {
        let mut d: Vec<u32> = self.reads.iter().map(|x| x.0).collect();
        d.dedup();
        d
    }
}

#[derive(Clone, Debug, serde::Serialize, serde::Deserialize)]
pub struct Failure {
    pub class: String,
    pub msg: String,
    /// Some(id) when the run was exposed to a recorded known finding before
    /// this failure was observed
    pub known: Option<String>,
}

pub struct Model<'p> {
    pub prog: &'p Program,
    pub inputs: HashMap<u32, Val>,
    pub captured: HashMap<u32, Val>,
    pub world: HashMap<u32, Val>,
    memo: RefCell<HashMap<u32, Val>>,
    stack: RefCell<Vec<u32>>,
    /// cyclic mode: members of a dependency cycle found in this epoch
    members: RefCell<HashSet<u32>>,
    pub cyclic: bool,
    /// cyclic mode: the values of this epoch depend on the request order
    pub ambiguous: bool,
    pub ambiguous_epochs: u64,
    pub concrete_cycle_accepts: u64,
    pub cyclic_epochs: u64,
    pub epoch: u64,
    pub execs: HashMap<u32, Vec<ExecRec>>,
    /// firewalls repaired through a RepairFirewall pass in this epoch
    /// (i.e. covered by the firewall set of a root named by the user)
    /// model clock: one tick per processed event / serve
    clock: u64,
    /// (clock, epoch) of the last time a node was handed out: it was
    /// verified for that epoch at that moment at the latest
    last_serve: HashMap<u32, (u64, u64)>,
    pub touched: HashSet<u32>,
    /// firewalls in the firewall set of the root of the request in flight:
    /// they become `touched` when the engine reports the end of that
    /// request's firewall-repair pass
    pub pending: HashSet<u32>,
    /// firewalls re-executed with a changed value outside such a pass and
    /// not covered since: their backward projections are still pending
    pub dirty_since_cover: HashSet<u32>,
    pub exposed: Option<String>,
    pub execs_this_epoch: HashMap<u32, u32>,
    pub refresh_epoch: bool,
    /// statistics
    pub serves: u64,
    pub serves_old: u64,
    pub reexec: u64,
    pub verified_without_exec: u64,
    pub c03_judged: u64,
    pub check_c03: bool,
    /// reads an invocation has started and not completed yet
    pub open_reads: HashMap<usize, Vec<u32>>,
    /// (external-input node, refresh number) pairs already seen
    pub refreshed: HashMap<(u32, u64), ()>,
    /// see `RunCfg::no_values`
    pub no_values: bool,
    /// nodes at or below a member of an unordered dependency group
    pub unord_below: HashSet<u32>,
}

struct ModelReader<'a, 'p>(&'a Model<'p>);

impl Reader for ModelReader<'_, '_> {
    fn read(&self, n: u32) -> BoxFut<'_, Result<Val, Abort>> {
        let v = self.0.read_for_model(n);
        Box::pin(async move { v })
    }
    fn read_join(&self, ns: &[u32]) -> BoxFut<'_, Result<Vec<Val>, Abort>> {
        let v: Result<Vec<Val>, Abort> =
            ns.iter().map(|n| self.0.read_for_model(*n)).collect();
        Box::pin(async move { v })
    }
    fn read_unord(&self, ns: &[u32]) -> BoxFut<'_, Result<Vec<Val>, Abort>> {
        self.read_join(ns)
    }
    fn outside_domain(&self) -> Val { vec![crate::program::UNDEF] }
}

// The model is only used from one thread; the Reader trait wants Sync.
unsafe impl Sync for ModelReader<'_, '_> {}

/// Evaluates an expression to the end (no abort), recording every read.
struct FullReader<'a, 'p>(&'a Model<'p>, RefCell<Vec<u32>>);

impl Reader for FullReader<'_, '_> {
    fn read(&self, n: u32) -> BoxFut<'_, Result<Val, Abort>> {
        self.1.borrow_mut().push(n);
        let v = self.0.memo.borrow().get(&n).cloned().unwrap_or_default();
        Box::pin(async move { Ok(v) })
    }
    fn read_join(&self, ns: &[u32]) -> BoxFut<'_, Result<Vec<Val>, Abort>> {
        let v: Vec<Val> = ns
            .iter()
            .map(|n| {
                self.1.borrow_mut().push(*n);
                self.0.memo.borrow().get(n).cloned().unwrap_or_default()
            })
            .collect();
        Box::pin(async move { Ok(v) })
    }
    fn read_unord(&self, ns: &[u32]) -> BoxFut<'_, Result<Vec<Val>, Abort>> {
        self.read_join(ns)
    }
    fn outside_domain(&self) -> Val { vec![crate::program::UNDEF] }
}

unsafe impl Sync for FullReader<'_, '_> {}

impl<'p> Model<'p> {
    pub fn new(prog: &'p Program) -> Self {
        Model {
            prog,
            inputs: HashMap::new(),
            captured: HashMap::new(),
            world: HashMap::new(),
            memo: RefCell::new(HashMap::new()),
            stack: RefCell::new(Vec::new()),
            members: RefCell::new(HashSet::new()),
            cyclic: false,
            ambiguous: false,
            ambiguous_epochs: 0,
            concrete_cycle_accepts: 0,
            cyclic_epochs: 0,
            epoch: 0,
            execs: HashMap::new(),
            clock: 0,
            last_serve: HashMap::new(),
            touched: HashSet::new(),
            pending: HashSet::new(),
            dirty_since_cover: HashSet::new(),
            exposed: None,
            execs_this_epoch: HashMap::new(),
            refresh_epoch: false,
            serves: 0,
            serves_old: 0,
            reexec: 0,
            verified_without_exec: 0,
            c03_judged: 0,
            check_c03: true,
            open_reads: HashMap::new(),
            refreshed: HashMap::new(),
            no_values: false,
            unord_below: unord_below(prog),
        }
    }

    pub fn clear_memo(&self) {
        self.memo.borrow_mut().clear();
        self.members.borrow_mut().clear();
    }

    /// A dependency read performed by the model's evaluation of the node on
    /// top of the stack.
    fn read_for_model(&self, n: u32) -> Result<Val, Abort> {
        if !self.cyclic {
            return Ok(self.fs(n));
        }
        let reader = *self.stack.borrow().last().expect("a reader is on the stack");
        if !self.memo.borrow().contains_key(&n) {
            if let Some(pos) = self.stack.borrow().iter().position(|x| *x == n) {
                // the read closes a cycle onto the evaluation stack: every
                // node from the target to the top is a member
                let members: Vec<u32> = self.stack.borrow()[pos..].to_vec();
                self.members.borrow_mut().extend(members);
                return Err(Abort);
            }
        }
        let v = self.fs(n);
        // a member stops at the first read that returns after it was marked
        if self.members.borrow().contains(&reader) {
            return Err(Abort);
        }
        Ok(v)
    }

    /// From-scratch value of node `n` on the currently committed inputs.
    /// In cyclic mode: depth-first evaluation in read order with cycle
    /// defaults, memoised per epoch in the order of the calls.
    pub fn fs(&self, n: u32) -> Val {
        if let Some(v) = self.memo.borrow().get(&n) {
            return v.clone();
        }
        assert!(
            self.cyclic || !self.stack.borrow().contains(&n),
            "from-scratch oracle: unexpected cycle at node {n}"
        );
        self.stack.borrow_mut().push(n);
        let v = match self.prog.kind(n) {
            Kind::In => self
                .inputs
                .get(&n)
                .cloned()
                .unwrap_or_else(|| panic!("oracle: input {n} never set")),
            Kind::Ex => self
                .captured
                .get(&n)
                .cloned()
                .unwrap_or_else(|| self.world.get(&n).cloned().unwrap_or_default()),
            k => {
                let r = eval(&self.prog.nodes[n as usize].expr, &ModelReader(self))
                    .now_or_never()
                    .expect("oracle evaluation never suspends");
                if self.members.borrow().contains(&n) {
                    crate::queries::scc_default(k)
                } else {
                    r.expect("a non-member is never aborted")
                }
            }
        };
        self.stack.borrow_mut().pop();
        self.memo.borrow_mut().insert(n, v.clone());
        v
    }

    pub fn is_member(&self, n: u32) -> bool { self.members.borrow().contains(&n) }

    /// Is `n` on a cycle of the concrete dependency graph of this epoch, i.e.
    /// the graph whose edges are all reads each node performs when its
    /// expression is evaluated to the end over the model's current values?
    /// (The depth-first model stops a member at its first aborted read; the
    /// engine may verify further recorded dependencies of that member and so
    /// close a cycle through a node the model never put on its stack.)
    pub fn on_concrete_cycle(&self, n: u32) -> bool {
        // make sure every node has a value
        for i in 0..self.prog.len() {
            if self.prog.kind(i) == Kind::In && !self.inputs.contains_key(&i) {
                continue;
            }
            let _ = self.fs(i);
        }
        let edges = |m: u32| -> Vec<u32> {
            if matches!(self.prog.kind(m), Kind::In | Kind::Ex) {
                return vec![];
            }
            let fr = FullReader(self, RefCell::new(Vec::new()));
            let _ = eval(&self.prog.nodes[m as usize].expr, &fr).now_or_never();
            fr.1.into_inner()
        };
        let mut seen = HashSet::new();
        let mut work = edges(n);
        while let Some(m) = work.pop() {
            if m == n {
                return true;
            }
            if seen.insert(m) {
                work.extend(edges(m));
            }
        }
        false
    }

    /// no cycle is reachable from `n` through the static read targets
    pub fn static_acyclic(&self, n: u32) -> bool {
        fn go(p: &Program, n: u32, stack: &mut Vec<u32>, done: &mut HashSet<u32>) -> bool {
            if stack.contains(&n) {
                return false;
            }
            if done.contains(&n) {
                return true;
            }
            stack.push(n);
            for d in p.static_deps(n) {
                if !go(p, d, stack, done) {
                    return false;
                }
            }
            stack.pop();
            done.insert(n);
            true
        }
        go(self.prog, n, &mut Vec::new(), &mut HashSet::new())
    }

    /// Cyclic mode, called when the inputs of an epoch are final: does the
    /// depth-first model give the same values whichever node is asked
    /// first?  If not, membership is order dependent and only nodes with a
    /// cycle-free reachable subgraph are compared in this epoch.
    pub fn classify_epoch(&mut self) {
        if !self.cyclic {
            return;
        }
        let n = self.prog.len();
        let mut reference: Option<Vec<Val>> = None;
        let mut ambiguous = false;
        let mut any_member = false;
        for first in 0..n {
            self.clear_memo();
            if self.prog.kind(first) == Kind::In && !self.inputs.contains_key(&first) {
                continue;
            }
            let _ = self.fs(first);
            let vals: Vec<Val> = (0..n)
                .map(|i| {
                    if self.prog.kind(i) == Kind::In && !self.inputs.contains_key(&i) {
                        vec![]
                    } else {
                        self.fs(i)
                    }
                })
                .collect();
            any_member |= !self.members.borrow().is_empty();
            match &reference {
                None => reference = Some(vals),
                Some(r) => {
                    if *r != vals {
                        ambiguous = true;
                    }
                }
            }
        }
        self.clear_memo();
        self.ambiguous = ambiguous;
        if any_member {
            self.cyclic_epochs += 1;
        }
        if ambiguous {
            self.ambiguous_epochs += 1;
        }
    }

    pub fn begin_epoch(&mut self) {
        self.epoch += 1;
        self.clear_memo();
        self.touched.clear();
        self.pending.clear();
        self.execs_this_epoch.clear();
        self.refresh_epoch = false;
    }

    pub fn set_world(&mut self, n: u32, v: Val) {
        self.world.insert(n, v);
        self.clear_memo();
    }

    /// refresh of the Ex type: every computed Ex query re-captures the world
    pub fn refresh(&mut self) {
        let keys: Vec<u32> = self.captured.keys().copied().collect();
        for k in keys {
            let v = self.world.get(&k).cloned().unwrap_or_default();
            self.captured.insert(k, v);
        }
        self.refresh_epoch = true;
        self.clear_memo();
    }

    fn last_exec(&self, n: u32) -> Option<&ExecRec> {
        self.execs.get(&n).and_then(|v| v.last())
    }

    fn deps_as_of(&self, n: u32, seq: u64) -> Vec<u32> {
        self.execs
            .get(&n)
            .and_then(|v| v.iter().rev().find(|r| r.seq <= seq))
            .map(ExecRec::deps)
            .unwrap_or_default()
    }

    fn latest_deps(&self, n: u32) -> Vec<u32> {
        self.last_exec(n).map(ExecRec::deps).unwrap_or_default()
    }

    /// every node reachable from `n` through the latest recorded read-sets
    fn closure_latest(&self, n: u32) -> HashSet<u32> {
        let mut seen = HashSet::new();
        let mut work = vec![n];
        while let Some(m) = work.pop() {
            for d in self.latest_deps(m) {
                if seen.insert(d) {
                    work.push(d);
                }
            }
        }
        seen
    }

    /// firewalls reachable from `r` without passing through a firewall,
    /// using `deps(m)` for the edges
    fn firewall_frontier(&self, r: u32, deps: impl Fn(u32) -> Vec<u32>) -> HashSet<u32> {
        let mut out = HashSet::new();
        let mut seen = HashSet::new();
        let mut work = vec![r];
        while let Some(m) = work.pop() {
            for d in deps(m) {
                if !seen.insert(d) {
                    continue;
                }
                if self.prog.kind(d) == Kind::Fw {
                    out.insert(d);
                } else {
                    work.push(d);
                }
            }
        }
        out
    }

    /// Under-approximation of the firewall set the engine repairs before
    /// repairing a previously computed root `r` (see DESIGN 6.1): reachable
    /// both through the edges as they stood at `r`'s own last execution and
    /// through the latest edges.
    fn model_t(&self, r: u32) -> HashSet<u32> {
        let Some(rec) = self.last_exec(r) else { return HashSet::new() };
        // the engine refreshes a query's firewall set when it verifies the
        // query, with or without executing it: the reference point is the
        // last time the query was executed or handed out
        let seq = rec.seq.max(self.last_serve.get(&r).map_or(0, |s| s.0));
        let old = self.firewall_frontier(r, |m| self.deps_as_of(m, seq));
        let new = self.firewall_frontier(r, |m| self.latest_deps(m));
        old.intersection(&new).copied().collect()
    }

    fn cover_from(&mut self, r: u32) {
        let mut work: Vec<u32> = self.model_t(r).into_iter().collect();
        while let Some(f) = work.pop() {
            if !self.touched.contains(&f) && self.pending.insert(f) {
                // A firewall that was already verified in this epoch (it was
                // executed or handed out on some other path) is not entered
                // again by the pass: its own pending backward projections are
                // run, the firewalls below it are not visited.
                let verified_now = self.last_exec(f).is_some_and(|r| r.epoch == self.epoch)
                    || self.last_serve.get(&f).is_some_and(|s| s.1 == self.epoch);
                if !verified_now {
                    work.extend(self.model_t(f));
                }
            }
        }
    }

    /// A user-level request names `root` (called before the request runs).
    pub fn user_request(&mut self, root: u32) {
        if self.cyclic {
            // evaluate in the same order as the engine is asked
            let _ = self.fs(root);
            return;
        }
        if self.last_exec(root).is_some() {
            // only a root on the Repair path triggers the firewall repair:
            // it has been computed before.  (If it was already verified in
            // this epoch the engine does nothing; marking its set as covered
            // is then harmless because nothing below it can be served stale
            // through it any more.)
            self.cover_from(root);
        }
    }

    pub fn repair_tfc_request(&mut self, root: u32) {
        if self.last_exec(root).is_some() {
            self.cover_from(root);
        }
    }

    /// the engine reported the end of the outermost firewall-repair pass
    pub fn pass_end(&mut self) {
        let p: Vec<u32> = self.pending.drain().collect();
        for f in p {
            self.touched.insert(f);
            self.dirty_since_cover.remove(&f);
        }
    }

    /// the user-level request returned; a root that was not on the repair
    /// path ran no pass, so whatever is still pending was not repaired
    pub fn request_end(&mut self) { self.pending.clear(); }

    fn stale(&self, f: u32) -> bool {
        self.last_exec(f).is_some_and(|r| r.value != self.fs(f))
    }

    /// The engine hands out `val` for node `n` (to the user or to an
    /// executor).
    pub fn serve(&mut self, n: u32, val: &Val, ctx: &str) -> Result<(), Failure> {
        self.serves += 1;
        self.clock += 1;
        let now = self.clock;
        let r = self.serve_inner(n, val, ctx);
        self.last_serve.insert(n, (now, self.epoch));
        r
    }

    /// A read of `n` has been started (it may never complete: an executor
    /// can abandon a sub-query). The engine may already have verified nodes
    /// in the closure of `n` on behalf of this read, so the exposure to
    /// KF-C01-1 is decided here as well as when a value is handed out.
    pub fn touch(&mut self, n: u32, ctx: &str) {
        if self.no_values || self.cyclic || !self.inputs_complete() {
            return;
        }
        self.clock += 1;
        let old = self.last_exec(n).is_some_and(|r| r.epoch < self.epoch);
        if old {
            self.expose_check(n, ctx);
        }
    }

    /// the invocation is over: reads it started and never completed were
    /// abandoned; the engine may have verified stale nodes on their behalf
    fn abandoned_reads(&mut self, id: usize, invs: &[Inv]) {
        if let Some(deps) = self.open_reads.remove(&id) {
            let node = invs[id].node;
            for d in deps {
                self.touch(d, &format!("executor of node {node} (abandoned read)"));
            }
        }
    }

    fn inputs_complete(&self) -> bool {
        self.prog.of_kind(Kind::In).iter().all(|i| self.inputs.contains_key(i))
    }

    fn serve_inner(&mut self, n: u32, val: &Val, ctx: &str) -> Result<(), Failure> {
        if self.no_values {
            return Ok(());
        }
        let old = !self.cyclic && self.last_exec(n).is_some_and(|r| r.epoch < self.epoch);
        if self.cyclic && self.ambiguous && !self.static_acyclic(n) {
            // order-dependent membership: only termination is claimed here
            let _ = self.fs(n);
            return Ok(());
        }
        if old {
            self.serves_old += 1;
            self.expose_check(n, ctx);
        }
        self.judge_value(n, val, ctx)
    }

    fn expose_check(&mut self, n: u32, ctx: &str) {
        {
            if self.exposed.is_none() {
                // firewalls strictly below n: n itself is repaired through
                // its own dirty edges whoever asks for it
                let cl = self.closure_latest(n);
                for f in cl {
                    if self.prog.kind(f) == Kind::Fw
                        && !self.touched.contains(&f)
                        && (self.stale(f) || self.dirty_since_cover.contains(&f))
                    {
                        if std::env::var("VERIF_DEBUG").is_ok() {
                            eprintln!(
                                "EXPOSE n={n} f={f} touched={:?} pending={:?} dirty={:?} stale={} execs_f={:?}",
                                self.touched, self.pending, self.dirty_since_cover, self.stale(f),
                                self.execs.get(&f).map(|v| v.iter().map(|r| (r.epoch, r.value.clone())).collect::<Vec<_>>())
                            );
                        }
                        self.exposed = Some(format!(
                            "epoch {}: {ctx} served node {n} computed in an \
                             earlier epoch; firewall {f} in its recorded \
                             closure is stale (or was recomputed \
                             outside a firewall-repair pass) and is not \
                             covered by the firewall set of any root named \
                             in this epoch",
                            self.epoch
                        ));
                        break;
                    }
                }
            }
        }
    }

    fn judge_value(&mut self, n: u32, val: &Val, ctx: &str) -> Result<(), Failure> {
        let want = self.fs(n);
        if *val != want
            && self.cyclic
            && *val == crate::queries::scc_default(self.prog.kind(n))
            && self.on_concrete_cycle(n)
        {
            // the node is on a cycle of the concrete dependency graph that
            // the depth-first model did not walk: both answers satisfy the
            // property; the rest of the epoch is order dependent
            self.ambiguous = true;
            self.concrete_cycle_accepts += 1;
            return Ok(());
        }
        if *val != want {
            if std::env::var("VERIF_DEBUG").is_ok() {
                eprintln!(
                    "MISMATCH n={n} touched={:?} pending={:?} dirty_since_cover={:?} closure={:?} old={}",
                    self.touched,
                    self.pending,
                    self.dirty_since_cover,
                    self.closure_latest(n),
                    self.last_exec(n).is_some_and(|r| r.epoch < self.epoch)
                );
            }
            return Err(Failure {
                class: "wrong_value".into(),
                msg: format!(
                    "epoch {}: {ctx}: node {n} ({:?}) = {:?}, from-scratch = {:?}",
                    self.epoch,
                    self.prog.kind(n),
                    val,
                    want
                ),
                known: self.exposed.as_ref().map(|_| "KF-C01-1".to_string()),
            });
        }
        Ok(())
    }

    /// Feed one harness log event.
    pub fn on_event(&mut self, ev: &Ev, invs: &[Inv]) -> Result<(), Failure> {
        match ev {
            Ev::Enter(_) => Ok(()),
            Ev::Read(id, dep, val) => {
                if let Some(v) = self.open_reads.get_mut(id) {
                    if let Some(p) = v.iter().position(|d| d == dep) {
                        v.remove(p);
                    }
                }
                let node = invs[*id].node;
                self.serve(*dep, val, &format!("executor of node {node}"))
            }
            Ev::Abort(id) => {
                self.abandoned_reads(*id, invs);
                Ok(())
            }
            Ev::ReadStart(id, dep) => {
                // judged when the invocation ends: only a read that was
                // started and never completed (an abandoned sub-query) counts,
                // and by then the passes the engine ran for it are known
                self.open_reads.entry(*id).or_default().push(*dep);
                Ok(())
            }
            Ev::Outside(id) => {
                if self.no_values {
                    return Ok(());
                }
                // Requests for nodes that are undefined from scratch are
                // never issued, and a defined node never evaluates a partial
                // node outside its domain (the guard comes first): the engine
                // ran this executor on its own, e.g. by verifying a recorded
                // dependency before the dependency that guards it.
                let node = invs[*id].node;
                Err(Failure {
                    class: "guard_violated".into(),
                    msg: format!(
                        "epoch {}: the partial executor of node {node} was run outside its domain; from scratch no request of this epoch evaluates it (its readers test the guard first)",
                        self.epoch
                    ),
                    known: self.exposed.as_ref().map(|_| "KF-C01-1".to_string()),
                })
            }
            Ev::Hook(site, a, _) => {
                if *site == "tfc_pass_end" && *a == 1 {
                    self.pass_end();
                }
                Ok(())
            }
            Ev::Exit(id) => {
                self.abandoned_reads(*id, invs);
                let inv = &invs[*id];
                let n = inv.node;
                let value = inv.result.clone().unwrap();
                let kind = self.prog.kind(n);
                if kind == Kind::Ex && inv.during_refresh && self.check_c03 {
                    // one refresh runs an external-input executor once
                    if self.refreshed.insert((n, inv.refresh_id), ()).is_some() {
                        return Err(Failure {
                            class: "ex_unjustified".into(),
                            msg: format!("epoch {}: external-input node {n} was executed twice by one refresh", self.epoch),
                            known: None,
                        });
                    }
                }
                if kind == Kind::Ex {
                    self.captured.insert(n, value.clone());
                    // a capture pins the value; memo entries computed from
                    // the world at this instant stay valid
                }
                let c = self.execs_this_epoch.entry(n).or_insert(0);
                *c += 1;
                let count = *c;
                let prev = self.last_exec(n).cloned();
                self.clock += 1;
                let rec = ExecRec {
                    seq: self.clock,
                    epoch: self.epoch,
                    reads: inv.reads.clone(),
                    value: value.clone(),
                };
                let mut res = Ok(());
                // completed runs only: an invocation the engine itself
                // aborted (sibling of an unordered group that found a
                // change first) never finished and is counted as a probe
                if count > 1
                    && self.check_c03
                    && self.exposed.is_none()
                    && kind != Kind::Ex
                {
                    res = Err(Failure {
                        class: "double_exec".into(),
                        msg: format!(
                            "epoch {}: node {n} ran to completion {count} \
                             times between two input sessions",
                            self.epoch
                        ),
                        // KF-C03-1: the engine aborts the sibling checks of
                        // an unordered group when one of them finds a change
                        known: self
                            .unord_below
                            .contains(&n)
                            .then(|| "KF-C03-1".to_string()),
                    });
                }
                if let Some(prev) = &prev
                    && res.is_ok()
                {
                    self.reexec += 1;
                    if self.check_c03 && self.exposed.is_none() {
                        self.c03_judged += 1;
                        if kind == Kind::Ex {
                            if !inv.during_refresh {
                                res = Err(Failure {
                                    class: "ex_unjustified".into(),
                                    msg: format!(
                                        "epoch {}: external-input node {n} \
                                         re-executed outside a refresh",
                                        self.epoch
                                    ),
                                    known: None,
                                });
                            }
                        } else {
                            let changed_now = prev
                                .reads
                                .iter()
                                .any(|(d, v)| self.fs(*d) != *v);
                            let changed_seen = prev.reads.iter().any(|(d, v)| {
                                rec.reads
                                    .iter()
                                    .any(|(d2, v2)| d2 == d && v2 != v)
                            });
                            if !changed_now && !changed_seen {
                                res = Err(Failure {
                                    class: "unjustified_exec".into(),
                                    msg: format!(
                                        "epoch {}: node {n} ({kind:?}) \
                                         re-executed although none of the \
                                         dependencies of its previous run \
                                         {:?} changed",
                                        self.epoch, prev.reads
                                    ),
                                    known: None,
                                });
                            }
                        }
                    }
                }
                // a pure executor fed with right values returns the right one
                if res.is_ok() && kind != Kind::Ex && self.exposed.is_none() && !self.cyclic {
                    let want = self.fs(n);
                    if want != value
                        && rec.reads.iter().all(|(d, v)| self.fs(*d) == *v)
                    {
                        res = Err(Failure {
                            class: "harness_error".into(),
                            msg: format!(
                                "node {n}: executor result {value:?} differs \
                                 from oracle {want:?} on identical reads"
                            ),
                            known: None,
                        });
                    }
                }
                if kind == Kind::Fw
                    && !self.touched.contains(&n)
                    && prev.as_ref().is_some_and(|p| p.value != value)
                {
                    self.dirty_since_cover.insert(n);
                }
                self.execs.entry(n).or_default().push(rec);
                res
            }
        }
    }
}

fn unord_below(prog: &Program) -> HashSet<u32> {
    fn groups(e: &crate::program::Expr, out: &mut Vec<u32>) {
        use crate::program::Expr;
        match e {
            Expr::Unord(v) => out.extend(v.iter().copied()),
            Expr::Const(_) | Expr::Read(_) | Expr::Join(_) => {}
            Expr::Idx(a, _) | Expr::Mul(a, _) | Expr::Mod(a, _) | Expr::Race(_, a) | Expr::NonZero(a) => groups(a, out),
            Expr::Add(a, b) | Expr::Min(a, b) | Expr::Cat(a, b) => {
                groups(a, out);
                groups(b, out);
            }
            Expr::If(c, t, f) => {
                groups(c, out);
                groups(t, out);
                groups(f, out);
            }
        }
    }
    let mut work = Vec::new();
    for (i, n) in prog.nodes.iter().enumerate() {
        if !matches!(n.kind, Kind::In | Kind::Ex) {
            let _ = i;
            groups(&n.expr, &mut work);
        }
    }
    let mut seen: HashSet<u32> = HashSet::new();
    while let Some(m) = work.pop() {
        if seen.insert(m) {
            work.extend(prog.static_deps(m));
        }
    }
    seen
}
