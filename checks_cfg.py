"""Per-property configuration of the check driver."""

ENGINE_COMPONENTS = dict(
    real=["qbice::Engine (computation graph, repair, dirty propagation, firewall/projection logic, "
          "input sessions, query lock manager, TinyLFU lock table, interner)",
          "tokio current_thread scheduler (paused clock as quiescence detector)"],
    stub=["user code: harness executors interpreting a generated Program",
          "storage: qbice InMemoryStorageEngine (shipped, but not the persistent path)"],
)

DB_COMPONENTS = dict(
    real=["qbice::Engine", "DbBacked storage engine: CacheSingleMap / CacheDynamicMap / CacheKeyOfSetMap, TinyLFU, "
          "single-flight, WriteBehind pipeline (real serializer / commit / after-commit threads, frozen and drained "
          "at seeded points through the wb_* hooks)", "interner and (de)serialization of every stored value"],
    stub=["disk: SimKv (ordered maps + append-only log of physical commits; crash = prefix of the log)",
          "user code: harness executors"],
)

CLASS_PROPERTY = {
    "snapshot_inconsistent": "C04",
    "stale_read": "C09", "final_store_content": "C09",
    "batch_identity": "C10", "batch_content": "C10", "batch_order": "C10", "final_content": "C10", "after_commit_lost": "C10",
    "not_canonical": "C15",
    "kv_point_read": "C11", "kv_member_scan": "C11",
    "roundtrip_mismatch": "C12", "codec_error": "C12", "codec_stream_differs": "C12", "codec_consumption": "C12",
    "hash_history_dependent": "C13", "hash_changes_after_codec": "C13", "hash_ambiguous": "C13", "hash_differs_across_processes": "C13",
    "lock_not_exclusive": "C16", "pinned_entry_lost": "C16", "stale_or_ghost_value": "C16", "bound_exceeded": "C16",
    "lost_element": "C02", "set_not_linearizable": "C02",
    "unstable_in_epoch": "C06",
    "hang": None,
    "stuck": None,
    "abort": None,
    "guard_violated": None,
    "panic": None,
    "half_published": "C05",
    "panic_swallowed": "C05",
    "pipeline_gap": "C05",
    "crash_wrong_value": "C08",
    "crash_inputs_not_a_session": "C08",
    "lost_after_clean_shutdown": "C07",
    "wrong_value": "C01",
    "wrong_set_input_result": "C01",
    "unjustified_exec": "C03",
    "double_exec": "C03",
    "ex_unjustified": "C03",
    "single_flight": "C02",
}

COMMON_ASSUME = [
    "the from-scratch interpreter and the harness executors share one evaluator; executors are pure",
    "128-bit fingerprint collisions do not occur",
    "tokio's current_thread scheduler is deterministic for a fixed wake order",
]

PROPS = {
    "C01": dict(
        bin="engine_sim", packages=["engine_sim"], args=["--prop", "C01"],
        quick_s=90, thorough_s=600, level="exploration",
        also=["C01"],
        rule=("seeded programs (3-12 nodes quick, up to 40 thorough; input/external/normal/firewall/"
              "projection nodes; If/Join/Unord reads) x histories of sessions (set/update/refresh, no-op "
              "and reverting writes, commit or drop), queries on arbitrary roots, repair_tfc; every value "
              "handed to the user or to an executor is compared with a from-scratch evaluation. "
              "non-trivial = >=2 epochs, a value-changing session, and a request that reached a node "
              "computed in an earlier epoch; distinct = hash of (program, history)"),
        components=ENGINE_COMPONENTS,
        assumptions=COMMON_ASSUME,
    ),
    "C03": dict(
        bin="engine_sim", packages=["engine_sim"], args=["--prop", "C03"],
        quick_s=90, thorough_s=600, level="exploration",
        also=["C03"],
        rule=("same generator as C01; every completed executor invocation is judged: first run, or a "
              "dependency read in the previous run has a different from-scratch value now (or returned a "
              "different value in this run); at most one completed run per node and epoch; external-input "
              "executors only on first demand or inside a refresh. non-trivial as C01 plus at least one "
              "re-execution judged"),
        components=ENGINE_COMPONENTS,
        assumptions=COMMON_ASSUME + ["an invocation the engine itself aborts (sibling of an unordered "
                                     "group) is not counted as a run"],
    ),
}

PROPS["C07"] = dict(
    bin="engine_sim", packages=["engine_sim"], args=["--prop", "C07"],
    quick_s=90, thorough_s=600, level="exploration", also=["C01", "C03"],
    rule=("C01 histories with clean Restart (drop engine, reopen on the same SimKv disk, re-register executors) and "
          "pipeline Drain operations inserted at arbitrary positions; cache capacity 1-64, 1-3 serializer threads, "
          "1-6 logical batches per physical commit. After every restart all values must be from-scratch and the "
          "justification rule of C03 keeps applying across the restart (a node that was up to date is served with "
          "zero executor runs). non-trivial = a restart happened, >= 2 epochs, a changing session and a request "
          "reaching a node computed before; distinct = hash of (program, history)"),
    components=DB_COMPONENTS,
    assumptions=COMMON_ASSUME + ["pipeline steps between two drains commute (the simulation thread only observes "
                                 "quiescent pipeline states)"],
)
PROPS["C08"] = dict(
    bin="engine_sim", packages=["engine_sim"], args=["--prop", "C08"],
    parts=[dict(bin="engine_sim", args=["--prop", "C08"], workers=12),
           dict(bin="engine_sim", args=["--prop", "C08r"], workers=4)],
    quick_s=90, thorough_s=600, level="fault_enumeration", also=["C01", "C07"],
    rule=("per sampled run (program x history x grouping x drain points on DbBacked<SimKv>) EVERY prefix of the "
          "physical commit log is opened as a crash state by a fresh engine: recovered inputs must be exactly the "
          "inputs of one committed session (monotone in the prefix length), every node must then answer "
          "from-scratch for those inputs, and the full log must equal the last session. non-trivial as C01 with "
          ">= 2 physical commits; distinct = hash of (program, history); crash prefixes are counted in totals"),
    components=DB_COMPONENTS,
    assumptions=COMMON_ASSUME + ["a process death leaves a prefix of the physical commits (commits are atomic in "
                                 "the KvDatabase contract)",
                                 "real-backend part: the backends' own threads are not scheduled; the kill point is the "
                                 "n-th write-behind hook event; RocksDB runs with its WAL disabled, so most kills recover "
                                 "an empty store (legal, weak); Fjall's journal gives richer prefixes; see totals"],
)

PROPS["C02"] = dict(
    bin="engine_sim", packages=["engine_sim"], args=["--prop", "C02"],
    quick_s=90, thorough_s=600, level="exploration", also=["C01", "C03"],
    rule=("programs of C01 plus dedicated fan-in shapes (33-40 concurrent callers of one callee; 1025+ in the "
          "thorough tier); histories alternate input sessions with phases of 2-6 (fan-in: all) user requests "
          "running as separate tokio tasks with own or shared tracked engines; preempt and await hooks on "
          "(uniform / PCT-style bursts / random site subsets). Oracles: from-scratch values for every value "
          "handed out, no two live executions of one query, quiescence detector for completion, and the edit "
          "after each phase re-queries so a lost backward edge shows as a stale value. non-trivial = a "
          "concurrent phase in which a task waited for another task's computation of a shared callee "
          "(cl_wait_existing / scc_wait probes) after a changing session; distinct = hash(program, history)"),
    components=ENGINE_COMPONENTS,
    assumptions=COMMON_ASSUME + ["parallelism is modelled as statement-level preemption of tasks on one thread "
                                 "(sequential consistency); true multi-core weak-memory effects are out of scope",
                                 "strict mode: the engine's own firewall-repair pass runs at each epoch start"],
)
PROPS["C04"] = dict(
    bin="engine_sim", packages=["engine_sim"], args=["--prop", "C04"],
    quick_s=90, thorough_s=600, level="exploration", also=["C01"],
    rule=("programs of input and normal nodes; one writer task runs 1-5 sessions (each writes inputs with "
          "values unique to that session, commit or plain drop) while 1-4 reader tasks loop tracked() / 1-3 "
          "queries / drop; hooks inside tracked() and input_session() let the scheduler separate 'lock held' "
          "from 'timestamp sampled'. Per tracked engine all returned values must be the from-scratch values "
          "of ONE committed input state S_k with committed_before_call <= k <= started_before_return; then a "
          "final sweep on the last state. In a third of the histories executors of normal nodes hand a clone of "
              "their engine to a spawned helper task that reads inputs, readers abandon requests at seeded "
              "suspensions and drop their engine, and the helper's reads must be the inputs of ONE committed "
              "state. non-trivial = a reader life overlapped a session (window hi > lo); "
          "distinct = hash(program, history)"),
    components=ENGINE_COMPONENTS,
    assumptions=COMMON_ASSUME + ["a single writer task (two concurrently open sessions are documented to deadlock)"],
)
PROPS["C05"] = dict(
    bin="engine_sim", packages=["engine_sim"], args=["--prop", "C05"],
    quick_s=90, thorough_s=600, level="fault_enumeration", also=["C01"],
    rule=("per sampled scenario (program x history x poll order) a calibration run counts the N suspension "
          "points of the fault target, then EVERY n in 1..N is run (cap 40 quick / 400 thorough, then an even "
          "sample): the user query, one of several concurrent requests, set_input, commit or the "
          "input_session() call itself is dropped at its n-th suspension (preempt hooks off, so never at a "
          "point where the real code cannot be suspended); or an executor panics at its k-th invocation. "
          "Afterwards the runtime is run to quiescence, the history continues with sessions and queries, every "
          "node is re-queried (from-scratch), no panic may be recorded anywhere later, and with "
          "DbBacked<SimKv> shutdown must return with every created batch submitted and committed. "
          "non-trivial = the fault fired; distinct = hash(program, history incl. n)"),
    components=ENGINE_COMPONENTS,
    assumptions=COMMON_ASSUME + ["cancellation = dropping the future at a Pending poll; a panic is injected in harness executors only"],
)

PROPS["C06"] = dict(
    bin="engine_sim", packages=["engine_sim"], args=["--prop", "C06"],
    quick_s=90, thorough_s=600, level="exploration", also=["C01"],
    rule=("digraphs of 2-7 normal nodes over 1-2 input flags with self-loops, nested / adjacent SCCs and edges "
          "conditional on the flags; sequential requests on arbitrary roots, sessions flipping flags, and (1/3 of "
          "the runs) concurrent request phases under preempt hooks. Oracle: executable model 'depth-first "
          "evaluation in read order; a read closing a cycle onto the stack makes every node from the target to "
          "the top a member; members stop at that read and take their declared default; everything else "
          "evaluates normally', memoised per epoch in request order. Epochs in which that model is request-order "
          "dependent (checked by evaluating with every node as first root), and concurrent phases, compare only "
          "nodes with a cycle-free reachable subgraph plus stability within the epoch. Termination by the "
          "quiescence detector; no panic other than the engine's own cycle payload. non-trivial = an epoch with "
          "a cycle reachable from a requested root that was compared strictly; distinct = hash(program, history)"),
    components=ENGINE_COMPONENTS,
    assumptions=COMMON_ASSUME + ["cycle defaults are per query type (the executor API has no per-key default)"],
)

STORAGE_COMPONENTS = dict(
    real=["qbice_storage: CacheSingleMap / CacheDynamicMap / CacheKeyOfSetMap, WideColumnCache, TinyLFU, single-flight, "
          "WriteBehind pipeline (real serializer / commit / after-commit threads, every step an explicit scheduler action)",
          "real harness threads, one at a time (token scheduler) with scheduling points between operations and in the "
          "hooked windows of the code"],
    stub=["disk: SimKv"],
)

PROPS["C02"]["packages"] = ["engine_sim", "storage_sim"]
PROPS["C02"]["parts"] = [
    dict(bin="engine_sim", args=["--prop", "C02"], workers=11),
    dict(bin="storage_sim", args=["--prop", "C02"], workers=3),
    dict(bin="storage_sim", args=["--prop", "C02i"], workers=2),
]
PROPS["C02"]["rule"] += (" | structure level (storage_sim, 4 of 16 workers): CompressedBackwardEdgeSet pre-filled to 27-33 "
                         "elements, 2-4 token-scheduled threads insert/remove their own elements and read len()/iter(), "
                         "with a scheduling point in the 32 -> large upgrade; per-element single-writer register rule | "
                         "in-memory key-of-set map (2 of 16 workers): 2-4 token-scheduled threads insert / remove their own "
                         "elements under 1-3 keys that have no set yet and read the sets, with a scheduling point after the "
                         "lookup miss; same register rule")
PROPS["C09"] = dict(
    bin="storage_sim", packages=["storage_sim"], args=["--prop", "C09"],
    quick_s=90, thorough_s=600, level="exploration", also=[],
    rule=("single, two-type and key-to-set maps of DbBacked<SimKv> driven directly: one thread (2/3 of the runs) or a "
          "single writer per key with racing readers (1/3); 20-120 (thorough 300) operations per thread over 2-8 (16) "
          "keys: open up to two batches, insert/remove into them (never into an older batch than an earlier write of "
          "the same key), submit in any order, get / iterate; every pipeline step (serialize batch e, commit, deliver "
          "after-commit notification) is a scheduler action between any two operations; cache capacity 1-16; sets "
          "pre-populated to 1019-1027 members so that the 1024 spill threshold is crossed in both directions; "
          "scheduling points inside the fill and write windows. Oracle: per register (map, key[, element]) a read may "
          "return the last write completed before it started or one overlapping it, nothing older; after shutdown the "
          "store holds the last writes. non-trivial = a cache-miss path and a pipeline step occurred; distinct = "
          "hash(scenario)"),
    components=STORAGE_COMPONENTS,
    assumptions=["sequential consistency between scheduling points", "writes to one key are issued into batches in "
                 "creation order (the store applies batches in creation order; the inverse is a usage error outside the property)"],
)
PROPS["C10"] = dict(
    bin="storage_sim", packages=["storage_sim"], args=["--prop", "C10"],
    quick_s=90, thorough_s=600, level="exploration", also=[],
    rule=("WriteBehind<SimKv> with 1-4 serializer threads; 1-4 token-scheduled threads create, fill (overlapping keys "
          "in single, dynamic and set columns) and submit batches in any order; the scheduler picks which parked "
          "serializer proceeds, so any arrival order at the commit stage is reachable; 1-5 logical batches per physical "
          "commit. Oracle: every batch carries a marker; the store's log must contain every created batch exactly once, "
          "in creation order, with exactly the operations issued into it; when drop(write manager) returns the store "
          "equals the sequential application of the batches; pipeline counters balance. non-trivial = >=2 batches and "
          "(submission order != creation order, or a multi-batch commit, or a pipeline step interleaved); distinct = hash(scenario)"),
    components=STORAGE_COMPONENTS,
    assumptions=["every created batch is submitted (an abandoned batch is C05's subject)"],
)
PROPS["C15"] = dict(
    bin="storage_sim", packages=["storage_sim"], args=["--prop", "C15"],
    quick_s=90, thorough_s=600, level="exploration", also=[],
    rule=("Interner::new (no timer thread; vacuum is an operation); 2-4 (thorough 8) token-scheduled threads over 1-4 "
          "values x 3 types (two sized structs with equal content, str): intern, intern_unsized, clone, drop (incl. "
          "the last handle), get_from_hash, vacuum, and encode/decode of a structure with repeated and nested handles "
          "with the same or a fresh interner; scheduling points between operations and between the read-miss and the "
          "write-lock re-check. Invariant at every registration: live handles of one (type, value) are one allocation "
          "with the right content; get_from_hash returns None only if no handle was live throughout the call; decoded "
          "duplicates share. non-trivial = a thread was descheduled inside the probe/insert window; distinct = hash(scenario)"),
    components=dict(real=["qbice_storage::intern::Interner, Interned encode/decode, real threads under the token scheduler"], stub=[]),
    assumptions=["sequential consistency between scheduling points (Arc/Weak internals are not interleaved)"],
)
PROPS["C16"] = dict(
    bin="storage_sim", packages=["storage_sim"], args=["--prop", "C16"],
    quick_s=90, thorough_s=600, level="exploration", also=[],
    rule=("TinyLFU<u32, Arc<Cell>> through its public API, capacity 1-40 (thorough 300), key universe 2-12x capacity, "
          "both unpin strategies, Piggyback maintenance; histories of 40-600 (thorough 5000) get / insert-or-update / "
          "remove / pin / unpin / probe operations, single-threaded (3/4) or 2-4 token-scheduled threads with a single "
          "writer per key and scheduling points inside the cache. Oracle: a read returns the latest value or, only "
          "for an entry that was un-pinned since its last write or removed, nothing; entries pinned since their last "
          "write are resident at every probe and at the end; probes bound the resident count by capacity + pinned + "
          "36; no panic. non-trivial = an eviction attempt hit a pinned key, or misses and pins both occurred; "
          "distinct = hash(scenario)"),
    components=dict(real=["qbice_storage::tiny_lfu (policy, LRU regions, sketch, read/write buffers)"], stub=["pin predicate: harness LifecycleListener"]),
    assumptions=["sequential consistency between scheduling points"],
)
PROPS["C16"]["parts"] = [
    dict(bin="storage_sim", args=["--prop", "C16"], workers=12),
    dict(bin="storage_sim", args=["--prop", "C16b"], workers=4),
]
PROPS["C16"]["rule"] += (" | lock table (4 of 16 workers): QueryLockManager::new(1..8); 2-4 token-scheduled threads take the "
                         "shared / exclusive lock of 1-3 hot query ids and hold it over 0-3 scheduling points while other "
                         "operations touch 5-40 cold ids to force eviction; witness counters per hot id: an exclusive holder "
                         "sees no other holder, a shared holder no exclusive one, for the whole critical section")

PROPS["C11"] = dict(
    bin="kv_sim", packages=["kv_sim"], args=[], selfcheck=False,
    quick_s=90, thorough_s=600, level="exploration", also=[],
    rule=("the real RocksDB and Fjall backends on a scratch directory (removed after each run); 7 wide-column slots "
          "over 4 columns (byte-string keys with prefixed u8 discriminant and two value types under one key; String "
          "keys with suffixed String discriminants 'a' / 'ab'; unit key and unit discriminant; nested tuple key with "
          "suffixed tuple discriminant) and 3 key-of-set columns; keys / elements from an adversarial pool (empty, "
          "[0], [0,0], [1] / [1,0], 'a' / 'ab' / 'abc', 0xFF runs of 1, 2, 9, 300 and 3000 bytes, an 8-byte string "
          "that looks like a length prefix, multi-byte varints); histories of 8-40 (thorough 120) operations: begin "
          "up to 3 batches, put / delete / insert-member / delete-member directly or through serialization buffers, "
          "commit or abandon in any order, point reads, member scans, close / reopen; a final reopen and read of "
          "everything. Oracle: reference map per (slot, key) and reference set per (set column, key); uncommitted and "
          "abandoned batches are invisible, a committed batch applies as a whole in issue order, scans return exactly "
          "the members of exactly that key without duplicates. non-trivial = >=2 commits, >=1 reopen, reads; distinct "
          "= hash(scenario)"),
    components=dict(real=["qbice_storage::kv_database::rocksdb::RocksDB (librocksdb)", "qbice_storage::kv_database::fjall::Fjall",
                          "postcard encoding of keys, discriminants and values"],
                    stub=[]),
    assumptions=["the backends' internal flush / compaction threads are real and not scheduled by the simulation; a "
                 "result must be stable over 3 executions to count as reproduced",
                 "fault kinds here are close/reopen and abandoned batches; kill -9 belongs to C08"],
)

PROPS["C12"] = dict(
    bin="codec_sim", packages=["codec_sim"], args=["--prop", "C12"], selfcheck=False,
    quick_s=60, thorough_s=300, level="exploration", also=[],
    rule=("stream simulation driven by a value generator: 1-8 heterogeneous values of a universe of 80 concrete types "
          "closed under the provided constructors to depth 3 (ints of every width at every 7-bit varint boundary +-1 "
          "and extremes, floats incl. NaN / -0.0 bit-exact, char, String, tuples, arrays, Vec / VecDeque / LinkedList "
          "/ BTree* / Hash* with a seeded BuildHasher, Box / Rc / Arc, Option / Result, derived structs and enums incl. "
          "generic ones and a skipped field, repeated Interned<T> sized and str) are written back to back through ONE "
          "encoder over a writer that accepts 1..=k bytes per write and may report Interrupted, then read back through "
          "ONE decoder over a reader that returns 1..=k bytes per read and may report Interrupted (k in {1,2,3,7,64}); "
          "u16 / i16 exhaustively once per batch. Oracle: decoded == original, bytes identical to a plain write, the "
          "reader ends exactly at a sentinel suffix, interned duplicates share one allocation. non-trivial = more "
          "than one byte and a read or write was split; distinct = hash(type sequence, chunking, seed)"),
    components=dict(real=["qbice_serialize (PostcardEncoder / PostcardDecoder, Encode / Decode impls, derive macros)", "Interned encode / decode"],
                    stub=["the byte stream: SimWriter / SimReader"]),
    assumptions=["hard I/O errors, truncation and bit flips are not injected: the property promises nothing about corrupt input",
                 "the smallvec / bitvec feature build is not covered"],
)
PROPS["C13"] = dict(
    bin="codec_sim", packages=["codec_sim"], args=["--prop", "C13"], selfcheck=False,
    quick_s=60, thorough_s=300, level="exploration", also=[],
    rule=("43 concrete types (scalars, strings, sequences, options / results, tuples, boxes, ordered and unordered "
          "collections incl. nested ones, derived structs / enums); per case a value is generated, then (a) rebuilt "
          "three times through different construction histories (another seeded BuildHasher state, shuffled insertion "
          "order, spare capacity / shrink_to_fit, remove and re-insert) - equal value must give the identical 128-bit "
          "SipHash and the identical recorded stream; (b) encoded and decoded - same hash; (c) a near-miss value "
          "(moved field boundary, one element more / fewer, neighbouring variant, None vs Some) must feed a different "
          "recorded byte stream (sub-hashed children as a sorted multiset of their streams) and a different hash; (d) "
          "the first 300 values of worker 0 are re-derived in a second process (fresh ASLR) and must hash equally. "
          "non-trivial = an unordered collection or a near-miss pair was involved; distinct = hash(type, seed)"),
    components=dict(real=["qbice_stable_hash (StableHash impls, derive, SeededStableHasherBuilder<Sip128Hasher>)"],
                    stub=["recording StableHasher for the discrimination half"]),
    assumptions=["128-bit collisions of SipHash are not searched for; -0.0 vs 0.0 is not asserted either way",
                 "DashMap / DashSet filled by scheduled threads are not covered (sequential construction histories only)"],
)

# runs per worker process in the quick tier (16 workers, multi-part checks split
# them); sized so that a loaded machine still reaches the count well inside
# the wall budget
QUICK_RUNS = {
    ("engine_sim", "C01"): 2000, ("engine_sim", "C02"): 1200, ("engine_sim", "C03"): 2000,
    ("engine_sim", "C04"): 2000, ("engine_sim", "C05"): 2000, ("engine_sim", "C06"): 1700,
    ("engine_sim", "C07"): 1000, ("engine_sim", "C08"): 280, ("engine_sim", "C08r"): 32,
    ("storage_sim", "C02"): 3000, ("storage_sim", "C02i"): 4000, ("storage_sim", "C09"): 1100, ("storage_sim", "C10"): 1700,
    ("storage_sim", "C15"): 2900, ("storage_sim", "C16"): 1300, ("storage_sim", "C16b"): 950,
    ("kv_sim", ""): 40, ("codec_sim", "C12"): 130000, ("codec_sim", "C13"): 200000,
}

HOOK_COMMITS = ["06b6edb", "0ffc033", "d5f7b95", "752f4f3", "281bdb8", "9279b96", "26389b7"]

NOT_BUILT = "check not built yet (work in progress in this session; see DESIGN.md section 8 for the order of construction)"
NOT_APPLICABLE = {
    "C14": ("type and query identifiers are compile-time constants and a pure hash of the key: there is no schedule, "
            "clock, fault, I/O or interleaving for the property to depend on and no seam to own; pairwise distinctness "
            "over a type universe is enumeration, a different technique (DESIGN.md section 5)"),
}
for _p in [ "C09", "C10", "C11", "C12", "C13", "C15", "C16"]:
    if _p not in PROPS:
        NOT_APPLICABLE[_p] = NOT_BUILT

MANIFEST_TEXT = {
    "C12": dict(
        text=("The stream surface is simulated (chunked and interrupted Read / Write, back-to-back values through one "
              "encoder / decoder); the value quantifier is covered by seeded generation over a typed universe - stated "
              "as such: only the stream dimension is simulation proper. The universe has 148 types: every type constructor "
              "the serializer supports, SmallVec and BitVec included (features on), derived structs and enums with skipped "
              "fields in every position, a 140-variant enum."),
        design_ref="DESIGN.md section 4 C12",
        note="trusted: V::same comparisons (bit-exact floats), the sentinel check",
        technique="deterministic stream simulation (short / interrupted reads and writes) over seeded typed values",
    ),
    "C13": dict(
        text=("History and process are the simulated dimensions (construction histories of unordered collections "
              "under a seeded BuildHasher, a second process); discrimination is checked on near-miss pairs with a "
              "recording hasher; for every sequence-like type the near miss moves the boundary between two adjacent "
              "sequences. 102 types, hash-only ones (BinaryHeap, OsString, CString, SmallVec, BitVec, FlexStr) included."),
        design_ref="DESIGN.md section 4 C13",
        note="trusted: the recording hasher's canonical stream; near-miss generators",
        technique="deterministic simulation of construction histories and a second process; recorded-stream oracle",
    ),
    "C11": dict(
        text=("Model-based simulation of API histories against the real backends with close/reopen and abandoned "
              "batches as fault kinds and adversarial key material; evidence over sampled histories. The backends' "
              "own background threads are outside the simulator's control (stated limitation)."),
        design_ref="DESIGN.md section 4 C11",
        note="trusted: reference map; RocksDB / Fjall determinism for a fixed API history",
        technique="deterministic simulation of API histories with reopen faults against a reference model (real backends)",
    ),
    "C09": dict(
        text=("Seeded exploration of operation histories x pipeline-step placements x cache capacities x racing "
              "readers against a per-register reference (single-writer register rule)."),
        design_ref="DESIGN.md section 4 C09",
        note="trusted: SimKv, the step gate of the pipeline, the token scheduler; hook windows are the H2/H3/H6 sites",
        technique="deterministic simulation: token-scheduled real threads + explicit pipeline steps, reference-model oracle",
    ),
    "C10": dict(
        text=("Seeded exploration of submitter/serializer interleavings and grouping decisions; the simulated disk's "
              "log is checked for exactly-once, order and content, at shutdown."),
        design_ref="DESIGN.md section 4 C10",
        note="trusted: SimKv log, marker column, step gate accounting",
        technique="deterministic simulation: token-scheduled threads, explicit pipeline steps, log oracle",
    ),
    "C15": dict(
        text=("Seeded exploration of intern/lookup/drop/vacuum/codec interleavings with a canonicity invariant "
              "evaluated whenever a handle is obtained."),
        design_ref="DESIGN.md section 4 C15",
        note="trusted: harness registry of live handles; scheduling points are the hand-placed intern_* point and every lock acquisition of Sharded (verif::RwLock)",
        technique="deterministic simulation: token-scheduled real threads, invariant oracle",
    ),
    "C16": dict(
        text=("Seeded exploration of long access histories and thread interleavings against a reference map with pin "
              "set and a resident-count bound."),
        design_ref="DESIGN.md section 4 C16",
        note="trusted: reference model; slack 36 at any moment justified from the maintenance batch size (33 buffered writes), window rounding (+2) and +1; after a forced maintenance pass (Settle) the bound is capacity + pinned + 2, and at the end (nothing pinned, cache filled with fresh keys) capacity + 1",
        technique="deterministic simulation: seeded histories, token-scheduled threads, reference-model oracle",
    ),
    "C06": dict(
        text=("Seeded exploration of small cyclic dependency graphs, roots, histories and (for a third of the "
              "runs) task interleavings, against an executable depth-first-with-defaults model; termination is "
              "decided by the quiescence detector."),
        design_ref="DESIGN.md section 4 C06",
        note="trusted: the DFS-with-defaults model (it is only allowed to demand what the property states; order-dependent epochs are excluded from strict comparison)",
        technique="deterministic simulation with an executable reference model for cycle semantics",
    ),
    "C02": dict(
        text=("Seeded exploration of task interleavings: concurrent requests run as separate tasks of one "
              "deterministic runtime; the controller injects yields at preempt/await hooks inside the engine "
              "(statement-level preemption model). Values, single-flight, completion and lost-invalidation are "
              "checked. Evidence over sampled programs and schedules."),
        design_ref="DESIGN.md section 4 C02",
        note="trusted: hook placement rules (DESIGN section 3), from-scratch oracle; structure-level thread interleavings are a separate sub-check when built",
        technique="deterministic simulation: seeded schedule exploration with yield injection, reference-model and single-flight oracles",
    ),
    "C04": dict(
        text=("Seeded exploration of reader/writer interleavings with a per-tracked-engine single-snapshot oracle "
              "bounded by the commit/start order observed in the simulated run."),
        design_ref="DESIGN.md section 4 C04",
        note="trusted: total order of the recorded call/return events on the simulation thread",
        technique="deterministic simulation: seeded schedule exploration, snapshot-consistency oracle over the recorded history",
    ),
    "C05": dict(
        text=("Fault enumeration inside each sampled scenario: every suspension point of the target future is a "
              "cancellation point that is actually run; executor panics at each early invocation. The engine "
              "must stay fully usable afterwards."),
        design_ref="DESIGN.md section 4 C05",
        note="trusted: CancelAt counts Pending polls of the target; preempt hooks are off in these runs",
        technique="deterministic simulation with fault injection: cancellation-point enumeration, panic injection",
    ),
    "C07": dict(
        text=("Seeded exploration of restart positions: the real engine, caches and write-behind pipeline run on a "
              "simulated disk; clean shutdown and reopen are operations of the generated history; value and "
              "re-execution oracles of C01/C03 span the restart."),
        design_ref="DESIGN.md section 4 C07",
        note="trusted: SimKv stub, the freeze/drain gate of the pipeline, oracles of C01/C03",
        technique="deterministic simulation with simulated disk; restart as a generated operation",
    ),
    "C08": dict(
        text=("Fault enumeration inside every sampled run: all prefixes of the physical commit log (all crash "
              "points between commits, for the grouping the run chose) are recovered and checked; sampling is "
              "across programs, histories, groupings and drain points."),
        design_ref="DESIGN.md section 4 C08",
        note="trusted: SimKv stub and its atomic-commit model; recovered engines are checked after the engine's own firewall-repair pass",
        technique="deterministic simulation, crash-point enumeration over the simulated disk's commit log",
    ),
    "C01": dict(
        text=("Seeded exploration: the real engine runs generated query programs and histories on a "
              "deterministic single-threaded runtime; every value handed to the user or to an executor is "
              "compared with a from-scratch interpreter of the same program. Evidence over the sampled "
              "programs/histories, not a proof over all graphs. Strict-mode runs (engine's own firewall "
              "repair pass at each epoch start) carry no exemption; free-mode runs classify the recorded "
              "known finding KF-C01-1 by an exposure predicate evaluated before the value is judged."),
        design_ref="DESIGN.md section 4 C01, section 6.1",
        note=("trusted: from-scratch interpreter (shared evaluator), harness executors, tokio current_thread "
              "determinism; in-memory storage engine in this check (persistent path is C07/C08)"),
        technique="deterministic simulation: seeded workload + seeded yield injection, reference-model oracle",
    ),
    "C03": dict(
        text=("Same simulated runs as C01 with a second oracle: every completed executor invocation must be "
              "justified by a changed dependency of its previous run (from-scratch values), at most once per "
              "epoch, external inputs only on first demand or refresh. Exploration-level evidence."),
        design_ref="DESIGN.md section 4 C03",
        note=("trusted: the harness invocation log; engine-aborted invocations (sibling of an unordered group) "
              "are not counted as runs; judged only before a run is exposed to KF-C01-1"),
        technique="deterministic simulation with per-invocation justification oracle",
    ),
}
