//! kv_sim: the shipped RocksDB and Fjall backends against a reference map.
//!
//! Model-based simulation of the `KvDatabase` API history: put / delete /
//! insert-member / delete-member batches (built directly or through
//! serialization buffers), several open at once, committed or abandoned in a
//! generated order, interleaved with point reads, member scans and
//! close / reopen of the database.  Keys and elements come from an
//! adversarial pool (empty, prefix-related, multi-kilobyte, 0xFF-heavy).
//! The backends' internal flush / compaction threads are real and not
//! scheduled by the simulation; results are a function of the history for a
//! correct backend.

use std::{
    collections::{BTreeMap, BTreeSet, HashSet},
    io::Write,
    time::Instant,
};

use qbice::{Decode, Encode, Identifiable};
use qbice_serialize::Plugin;
use qbice_storage::kv_database::{
    DiscriminantEncoding, KeyOfSetColumn, KvDatabase, SerializationBuffer, WideColumn,
    WideColumnValue, WriteBatch, fjall::Fjall, rocksdb::RocksDB,
};
use serde::{Deserialize, Serialize};
use simkit::{Rng, label, mix};

// ---- columns -----------------------------------------------------------------

macro_rules! col {
    ($name:ident, $key:ty, $disc:ty, $enc:ident) => {
        #[derive(Debug, Clone, Copy, PartialEq, Eq, PartialOrd, Ord, Hash, Identifiable)]
        pub struct $name;
        impl WideColumn for $name {
            type Key = $key;
            type Discriminant = $disc;
            fn discriminant_encoding() -> DiscriminantEncoding { DiscriminantEncoding::$enc }
        }
    };
}
macro_rules! val {
    ($name:ident, $inner:ty, $col:ty, $disc:expr) => {
        #[derive(Debug, Clone, PartialEq, Eq, Encode, Decode)]
        pub struct $name(pub $inner);
        impl WideColumnValue<$col> for $name {
            fn discriminant() -> <$col as WideColumn>::Discriminant { $disc }
        }
    };
}

col!(WBytes, Vec<u8>, u8, Prefixed);
val!(WBytesA, Vec<u8>, WBytes, 1);
val!(WBytesB, u64, WBytes, 2);

col!(WStr, String, String, Suffixed);
val!(WStrA, Vec<u8>, WStr, "a".to_string());
val!(WStrB, Vec<u8>, WStr, "ab".to_string());

col!(WUnit, (), (), Prefixed);
val!(WUnitV, Vec<u8>, WUnit, ());

col!(WNest, (Vec<u8>, u32), (u8, u8), Suffixed);
val!(WNestA, Vec<u8>, WNest, (1, 2));
val!(WNestB, Vec<u8>, WNest, (1, 3));

#[derive(Debug, Clone, Copy, PartialEq, Eq, PartialOrd, Ord, Hash, Identifiable)]
pub struct SBytes;
impl KeyOfSetColumn for SBytes {
    type Key = Vec<u8>;
    type Element = Vec<u8>;
}
#[derive(Debug, Clone, Copy, PartialEq, Eq, PartialOrd, Ord, Hash, Identifiable)]
pub struct SUnit;
impl KeyOfSetColumn for SUnit {
    type Key = ();
    type Element = u64;
}
#[derive(Debug, Clone, Copy, PartialEq, Eq, PartialOrd, Ord, Hash, Identifiable)]
pub struct SStr;
impl KeyOfSetColumn for SStr {
    type Key = String;
    type Element = String;
}

/// wide column "slots": (column, value type)
const WIDE_SLOTS: u8 = 7;
const SET_SLOTS: u8 = 3;

fn pool(r: &mut Rng) -> Vec<u8> {
    match r.below(16) {
        0 => vec![],
        1 => vec![0],
        2 => vec![0, 0],
        3 => vec![1],
        4 => vec![1, 0],
        5 => vec![0xFF],
        6 => vec![0xFF, 0xFF],
        7 => vec![0xFF; 9],
        8 => b"a".to_vec(),
        9 => b"ab".to_vec(),
        10 => b"abc".to_vec(),
        11 => vec![0xFF; 300],
        12 => {
            let mut v = vec![0xFF; 3000];
            v[2999] = r.below(3) as u8;
            v
        }
        13 => vec![2, 0, 0, 0, 0, 0, 0, 0],
        14 => vec![0x80, 0x01],
        _ => (0..r.below(4)).map(|_| r.below(256) as u8).collect(),
    }
}

#[derive(Clone, Debug, PartialEq, Eq, Serialize, Deserialize)]
pub enum Op {
    Begin(u32),
    /// (batch, slot, key, value, via serialization buffer)
    Put(u32, u8, Vec<u8>, Vec<u8>, bool),
    Del(u32, u8, Vec<u8>, bool),
    Ins(u32, u8, Vec<u8>, Vec<u8>, bool),
    Rem(u32, u8, Vec<u8>, Vec<u8>, bool),
    Commit(u32),
    Abandon(u32),
    Get(u8, Vec<u8>),
    Scan(u8, Vec<u8>),
    Reopen,
    /// many operations in ONE serialization buffer: (kind 0 put / 1 del /
    /// 2 ins / 3 rem, slot, key, value or element); added after seeded
    /// change C11-5
    Bulk(u32, Vec<(u8, u8, Vec<u8>, Vec<u8>)>),
    /// put of a value of `len` bytes filled with `fill` (batches of several
    /// MiB; seeded change C11-3): (batch, slot, key, fill, len)
    PutBig(u32, u8, Vec<u8>, u8, u32),
}

#[derive(Clone, Debug, Serialize, Deserialize)]
pub struct Scenario {
    pub seed: u64,
    pub backend: String,
    pub ops: Vec<Op>,
}

/// big batches are slow: rarely in the quick tier
fn thorough_or_big(r: &mut Rng, thorough: bool) -> bool { r.chance(1, if thorough { 60 } else { 200 }) }

fn generate(seed: u64, thorough: bool) -> Scenario {
    let mut r = Rng::new(seed).split(label("kv-workload"));
    let backend = if r.chance(1, 2) { "rocksdb" } else { "fjall" }.to_string();
    let n = r.range(8, if thorough { 120 } else { 40 });
    // a small set of keys per run so that reads hit written keys
    let keys: Vec<Vec<u8>> = (0..r.range(2, 6)).map(|_| pool(&mut r)).collect();
    let mut ops = Vec::new();
    let mut open: Vec<u32> = Vec::new();
    let mut next = 0u32;
    // a tenth of the runs starts with the history of seeded change C11-4: a
    // member written, made durable, written again, deleted, made durable
    if r.chance(1, 10) {
        let (slot, k, e) = (r.below(u64::from(SET_SLOTS)) as u8, r.pick(&keys).clone(), pool(&mut r));
        for step in 0..3u32 {
            ops.push(Op::Begin(next));
            if step < 2 {
                ops.push(Op::Ins(next, slot, k.clone(), e.clone(), r.chance(1, 2)));
            } else {
                ops.push(Op::Rem(next, slot, k.clone(), e.clone(), r.chance(1, 2)));
            }
            ops.push(Op::Commit(next));
            next += 1;
            if step != 1 || r.chance(1, 2) {
                ops.push(Op::Reopen);
            }
            ops.push(Op::Scan(slot, k.clone()));
        }
        ops.push(Op::Reopen);
        ops.push(Op::Scan(slot, k));
    }
    for _ in 0..n {
        let key = r.pick(&keys).clone();
        // one buffer with 21-40 operations over a few columns and keys
        if !open.is_empty() && r.chance(1, 25) {
            let b = *r.pick(&open);
            let m = r.range(21, 40);
            let items = (0..m)
                .map(|_| {
                    let kind = r.below(4) as u8;
                    let slot = if kind < 2 { r.below(u64::from(WIDE_SLOTS)) as u8 } else { r.below(u64::from(SET_SLOTS)) as u8 };
                    let mut v = if kind < 2 { pool(&mut r) } else { r.pick(&keys).clone() };
                    if kind == 0 {
                        v.push(r.below(250) as u8);
                    }
                    (kind, slot, r.pick(&keys).clone(), v)
                })
                .collect();
            ops.push(Op::Bulk(b, items));
            continue;
        }
        // a batch of more than 4 MiB, then a read before anything is committed
        if thorough_or_big(&mut r, thorough) && !open.is_empty() {
            let b = *r.pick(&open);
            let slot = *r.pick(&[0u8, 2, 3, 5]);
            for i in 0..5u8 {
                ops.push(Op::PutBig(b, slot, r.pick(&keys).clone(), i + 1, 1_100_000));
            }
            for k in &keys {
                ops.push(Op::Get(slot, k.clone()));
            }
            continue;
        }
        match r.below(24) {
            0..=2 if open.len() < 3 => {
                ops.push(Op::Begin(next));
                open.push(next);
                next += 1;
            }
            3..=8 if !open.is_empty() => {
                let b = *r.pick(&open);
                let mut v = pool(&mut r);
                v.push(r.below(250) as u8);
                ops.push(Op::Put(b, r.below(u64::from(WIDE_SLOTS)) as u8, key, v, r.chance(1, 2)));
            }
            9 | 10 if !open.is_empty() => {
                ops.push(Op::Del(*r.pick(&open), r.below(u64::from(WIDE_SLOTS)) as u8, key, r.chance(1, 2)));
            }
            11..=14 if !open.is_empty() => {
                ops.push(Op::Ins(*r.pick(&open), r.below(u64::from(SET_SLOTS)) as u8, key, pool(&mut r), r.chance(1, 2)));
            }
            15 if !open.is_empty() => {
                ops.push(Op::Rem(*r.pick(&open), r.below(u64::from(SET_SLOTS)) as u8, key, pool(&mut r), r.chance(1, 2)));
            }
            16 | 17 if !open.is_empty() => {
                let i = r.usize(open.len());
                ops.push(Op::Commit(open.remove(i)));
            }
            18 if !open.is_empty() => {
                let i = r.usize(open.len());
                ops.push(Op::Abandon(open.remove(i)));
            }
            19 | 20 => ops.push(Op::Get(r.below(u64::from(WIDE_SLOTS)) as u8, key)),
            21 | 22 => ops.push(Op::Scan(r.below(u64::from(SET_SLOTS)) as u8, key)),
            23 if open.is_empty() => ops.push(Op::Reopen),
            _ => ops.push(Op::Get(r.below(u64::from(WIDE_SLOTS)) as u8, key)),
        }
    }
    for b in open {
        ops.push(Op::Commit(b));
    }
    ops.push(Op::Reopen);
    for k in &keys {
        for s in 0..WIDE_SLOTS {
            ops.push(Op::Get(s, k.clone()));
        }
        for s in 0..SET_SLOTS {
            ops.push(Op::Scan(s, k.clone()));
        }
    }
    Scenario { seed, backend, ops }
}

// ---- typed dispatch -----------------------------------------------------------------

fn nest_key(k: &[u8]) -> (Vec<u8>, u32) { (k.to_vec(), k.len() as u32) }
fn skey(k: &[u8]) -> String { k.iter().map(|b| char::from(b'a' + (b % 3))).collect() }
fn ukey(e: &[u8]) -> u64 { e.iter().fold(e.len() as u64, |a, b| a.wrapping_mul(257).wrapping_add(u64::from(*b))) }

/// the reference treats keys through the same normalisation as the typed call
fn norm_wide(slot: u8, k: &[u8]) -> Vec<u8> {
    match slot {
        0 | 1 => k.to_vec(),
        2 | 3 => skey(k).into_bytes(),
        4 => vec![],
        _ => k.to_vec(),
    }
}
fn norm_set_key(slot: u8, k: &[u8]) -> Vec<u8> {
    match slot {
        0 => k.to_vec(),
        1 => vec![],
        _ => skey(k).into_bytes(),
    }
}
fn norm_elem(slot: u8, e: &[u8]) -> Vec<u8> {
    match slot {
        0 => e.to_vec(),
        1 => ukey(e).to_le_bytes().to_vec(),
        _ => skey(e).into_bytes(),
    }
}
fn norm_val(slot: u8, v: &[u8]) -> Vec<u8> {
    if slot == 1 { ukey(v).to_le_bytes().to_vec() } else { v.to_vec() }
}

trait Sink {
    fn put<W: WideColumn, C: WideColumnValue<W>>(&mut self, k: &W::Key, v: &C);
    fn del<W: WideColumn, C: WideColumnValue<W>>(&mut self, k: &W::Key);
    fn ins<C: KeyOfSetColumn>(&mut self, k: &C::Key, e: &C::Element);
    fn rem<C: KeyOfSetColumn>(&mut self, k: &C::Key, e: &C::Element);
}
struct BatchSink<'a, B: WriteBatch>(&'a mut B);
impl<B: WriteBatch> Sink for BatchSink<'_, B> {
    fn put<W: WideColumn, C: WideColumnValue<W>>(&mut self, k: &W::Key, v: &C) { self.0.put::<W, C>(k, v); }
    fn del<W: WideColumn, C: WideColumnValue<W>>(&mut self, k: &W::Key) { self.0.delete::<W, C>(k); }
    fn ins<C: KeyOfSetColumn>(&mut self, k: &C::Key, e: &C::Element) { self.0.insert_member::<C>(k, e); }
    fn rem<C: KeyOfSetColumn>(&mut self, k: &C::Key, e: &C::Element) { self.0.delete_member::<C>(k, e); }
}
struct BufSink<'a, S: SerializationBuffer>(&'a mut S);
impl<S: SerializationBuffer> Sink for BufSink<'_, S> {
    fn put<W: WideColumn, C: WideColumnValue<W>>(&mut self, k: &W::Key, v: &C) { self.0.put::<W, C>(k, v); }
    fn del<W: WideColumn, C: WideColumnValue<W>>(&mut self, k: &W::Key) { self.0.delete::<W, C>(k); }
    fn ins<C: KeyOfSetColumn>(&mut self, k: &C::Key, e: &C::Element) { self.0.insert_member::<C>(k, e); }
    fn rem<C: KeyOfSetColumn>(&mut self, k: &C::Key, e: &C::Element) { self.0.delete_member::<C>(k, e); }
}

fn wide_put<S: Sink>(s: &mut S, slot: u8, k: &[u8], v: &[u8]) {
    match slot {
        0 => s.put::<WBytes, WBytesA>(&k.to_vec(), &WBytesA(v.to_vec())),
        1 => s.put::<WBytes, WBytesB>(&k.to_vec(), &WBytesB(ukey(v))),
        2 => s.put::<WStr, WStrA>(&skey(k), &WStrA(v.to_vec())),
        3 => s.put::<WStr, WStrB>(&skey(k), &WStrB(v.to_vec())),
        4 => s.put::<WUnit, WUnitV>(&(), &WUnitV(v.to_vec())),
        5 => s.put::<WNest, WNestA>(&nest_key(k), &WNestA(v.to_vec())),
        _ => s.put::<WNest, WNestB>(&nest_key(k), &WNestB(v.to_vec())),
    }
}
fn wide_del<S: Sink>(s: &mut S, slot: u8, k: &[u8]) {
    match slot {
        0 => s.del::<WBytes, WBytesA>(&k.to_vec()),
        1 => s.del::<WBytes, WBytesB>(&k.to_vec()),
        2 => s.del::<WStr, WStrA>(&skey(k)),
        3 => s.del::<WStr, WStrB>(&skey(k)),
        4 => s.del::<WUnit, WUnitV>(&()),
        5 => s.del::<WNest, WNestA>(&nest_key(k)),
        _ => s.del::<WNest, WNestB>(&nest_key(k)),
    }
}
fn set_ins<S: Sink>(s: &mut S, slot: u8, k: &[u8], e: &[u8]) {
    match slot {
        0 => s.ins::<SBytes>(&k.to_vec(), &e.to_vec()),
        1 => s.ins::<SUnit>(&(), &ukey(e)),
        _ => s.ins::<SStr>(&skey(k), &skey(e)),
    }
}
fn set_rem<S: Sink>(s: &mut S, slot: u8, k: &[u8], e: &[u8]) {
    match slot {
        0 => s.rem::<SBytes>(&k.to_vec(), &e.to_vec()),
        1 => s.rem::<SUnit>(&(), &ukey(e)),
        _ => s.rem::<SStr>(&skey(k), &skey(e)),
    }
}
fn wide_get<Db: KvDatabase>(db: &Db, slot: u8, k: &[u8]) -> Option<Vec<u8>> {
    match slot {
        0 => db.get_wide_column::<WBytes, WBytesA>(&k.to_vec()).map(|v| v.0),
        1 => db.get_wide_column::<WBytes, WBytesB>(&k.to_vec()).map(|v| v.0.to_le_bytes().to_vec()),
        2 => db.get_wide_column::<WStr, WStrA>(&skey(k)).map(|v| v.0),
        3 => db.get_wide_column::<WStr, WStrB>(&skey(k)).map(|v| v.0),
        4 => db.get_wide_column::<WUnit, WUnitV>(&()).map(|v| v.0),
        5 => db.get_wide_column::<WNest, WNestA>(&nest_key(k)).map(|v| v.0),
        _ => db.get_wide_column::<WNest, WNestB>(&nest_key(k)).map(|v| v.0),
    }
}
fn set_scan<Db: KvDatabase>(db: &Db, slot: u8, k: &[u8]) -> Vec<Vec<u8>> {
    match slot {
        0 => db.scan_members::<SBytes>(&k.to_vec()).collect(),
        1 => db.scan_members::<SUnit>(&()).map(|x| x.to_le_bytes().to_vec()).collect(),
        _ => db.scan_members::<SStr>(&skey(k)).map(String::into_bytes).collect(),
    }
}

#[derive(Default)]
struct Pending {
    wide: Vec<((u8, Vec<u8>), Option<Vec<u8>>)>,
    sets: Vec<((u8, Vec<u8>, Vec<u8>), bool)>,
}

#[derive(Default)]
struct Outcome {
    failure: Option<(String, String)>,
    reads: u64,
    reopen: u64,
    commits: u64,
    abandoned: u64,
    nontrivial: bool,
}

fn run_on<Db: KvDatabase>(open: &dyn Fn() -> Db, sc: &Scenario) -> Outcome {
    let mut out = Outcome::default();
    let mut db = Some(open());
    let mut batches: BTreeMap<u32, (Db::WriteBatch, Pending)> = BTreeMap::new();
    let mut wide: BTreeMap<(u8, Vec<u8>), Vec<u8>> = BTreeMap::new();
    let mut sets: BTreeMap<(u8, Vec<u8>), BTreeSet<Vec<u8>>> = BTreeMap::new();
    let mut fail = |out: &mut Outcome, c: &str, m: String| {
        if out.failure.is_none() {
            out.failure = Some((c.to_string(), m));
        }
    };
    for (i, op) in sc.ops.iter().enumerate() {
        match op {
            Op::Begin(b) => {
                batches.insert(*b, (db.as_ref().unwrap().write_batch(), Pending::default()));
            }
            Op::Put(b, slot, k, v, via) => {
                let Some((wb, p)) = batches.get_mut(b) else { continue };
                if *via {
                    let mut buf = db.as_ref().unwrap().serialization_buffer();
                    wide_put(&mut BufSink(&mut buf), *slot, k, v);
                    wb.consume_serialization_buffer(buf);
                } else {
                    wide_put(&mut BatchSink(wb), *slot, k, v);
                }
                p.wide.push(((*slot, norm_wide(*slot, k)), Some(norm_val(*slot, v))));
            }
            Op::Del(b, slot, k, via) => {
                let Some((wb, p)) = batches.get_mut(b) else { continue };
                if *via {
                    let mut buf = db.as_ref().unwrap().serialization_buffer();
                    wide_del(&mut BufSink(&mut buf), *slot, k);
                    wb.consume_serialization_buffer(buf);
                } else {
                    wide_del(&mut BatchSink(wb), *slot, k);
                }
                p.wide.push(((*slot, norm_wide(*slot, k)), None));
            }
            Op::Ins(b, slot, k, e, via) => {
                let Some((wb, p)) = batches.get_mut(b) else { continue };
                if *via {
                    let mut buf = db.as_ref().unwrap().serialization_buffer();
                    set_ins(&mut BufSink(&mut buf), *slot, k, e);
                    wb.consume_serialization_buffer(buf);
                } else {
                    set_ins(&mut BatchSink(wb), *slot, k, e);
                }
                p.sets.push(((*slot, norm_set_key(*slot, k), norm_elem(*slot, e)), true));
            }
            Op::Rem(b, slot, k, e, via) => {
                let Some((wb, p)) = batches.get_mut(b) else { continue };
                if *via {
                    let mut buf = db.as_ref().unwrap().serialization_buffer();
                    set_rem(&mut BufSink(&mut buf), *slot, k, e);
                    wb.consume_serialization_buffer(buf);
                } else {
                    set_rem(&mut BatchSink(wb), *slot, k, e);
                }
                p.sets.push(((*slot, norm_set_key(*slot, k), norm_elem(*slot, e)), false));
            }
            Op::Bulk(b, items) => {
                let Some((wb, p)) = batches.get_mut(b) else { continue };
                let mut buf = db.as_ref().unwrap().serialization_buffer();
                for (kind, slot, k, v) in items {
                    match kind {
                        0 => {
                            wide_put(&mut BufSink(&mut buf), *slot, k, v);
                            p.wide.push(((*slot, norm_wide(*slot, k)), Some(norm_val(*slot, v))));
                        }
                        1 => {
                            wide_del(&mut BufSink(&mut buf), *slot, k);
                            p.wide.push(((*slot, norm_wide(*slot, k)), None));
                        }
                        2 => {
                            set_ins(&mut BufSink(&mut buf), *slot, k, v);
                            p.sets.push(((*slot, norm_set_key(*slot, k), norm_elem(*slot, v)), true));
                        }
                        _ => {
                            set_rem(&mut BufSink(&mut buf), *slot, k, v);
                            p.sets.push(((*slot, norm_set_key(*slot, k), norm_elem(*slot, v)), false));
                        }
                    }
                }
                wb.consume_serialization_buffer(buf);
            }
            Op::PutBig(b, slot, k, fill, len) => {
                let Some((wb, p)) = batches.get_mut(b) else { continue };
                let v = vec![*fill; *len as usize];
                wide_put(&mut BatchSink(wb), *slot, k, &v);
                p.wide.push(((*slot, norm_wide(*slot, k)), Some(norm_val(*slot, &v))));
            }
            Op::Commit(b) => {
                let Some((wb, p)) = batches.remove(b) else { continue };
                wb.commit();
                out.commits += 1;
                // a batch takes effect as a whole, operations in issue order
                for (k, v) in p.wide {
                    match v {
                        Some(v) => {
                            wide.insert(k, v);
                        }
                        None => {
                            wide.remove(&k);
                        }
                    }
                }
                for ((s, k, e), ins) in p.sets {
                    let set = sets.entry((s, k)).or_default();
                    if ins {
                        set.insert(e);
                    } else {
                        set.remove(&e);
                    }
                }
            }
            Op::Abandon(b) => {
                if batches.remove(b).is_some() {
                    out.abandoned += 1;
                }
            }
            Op::Get(slot, k) => {
                out.reads += 1;
                let got = wide_get(db.as_ref().unwrap(), *slot, k);
                let want = wide.get(&(*slot, norm_wide(*slot, k))).cloned();
                if got != want {
                    fail(
                        &mut out,
                        "kv_point_read",
                        format!(
                            "op {i}: point read of slot {slot} key (len {}) {:?}.. returned {:?}, the committed value is {:?}",
                            k.len(),
                            &k[..k.len().min(6)],
                            got.as_ref().map(|v| (v.len(), v[..v.len().min(6)].to_vec())),
                            want.as_ref().map(|v| (v.len(), v[..v.len().min(6)].to_vec()))
                        ),
                    );
                }
            }
            Op::Scan(slot, k) => {
                out.reads += 1;
                let got = set_scan(db.as_ref().unwrap(), *slot, k);
                let gs: BTreeSet<Vec<u8>> = got.iter().cloned().collect();
                let want = sets.get(&(*slot, norm_set_key(*slot, k))).cloned().unwrap_or_default();
                if gs != want || gs.len() != got.len() {
                    fail(
                        &mut out,
                        "kv_member_scan",
                        format!(
                            "op {i}: member scan of set slot {slot} key (len {}) returned {} members ({} distinct), {} are committed; missing {:?} extra {:?}",
                            k.len(),
                            got.len(),
                            gs.len(),
                            want.len(),
                            want.difference(&gs).map(|e| (e.len(), e[..e.len().min(4)].to_vec())).collect::<Vec<_>>(),
                            gs.difference(&want).map(|e| (e.len(), e[..e.len().min(4)].to_vec())).collect::<Vec<_>>()
                        ),
                    );
                }
            }
            Op::Reopen => {
                if !batches.is_empty() {
                    continue;
                }
                db = None;
                db = Some(open());
                out.reopen += 1;
            }
        }
        if out.failure.is_some() {
            break;
        }
    }
    out.nontrivial = out.commits >= 2 && out.reopen >= 1 && out.reads > 0;
    drop(batches);
    drop(db);
    out
}

fn run(sc: &Scenario) -> Outcome {
    let dir = tempfile::Builder::new().prefix("verif_kv_").tempdir().expect("tempdir");
    let path = dir.path().to_path_buf();
    let r = std::panic::catch_unwind(std::panic::AssertUnwindSafe(|| match sc.backend.as_str() {
        "rocksdb" => run_on(&|| RocksDB::open(&path, Plugin::default()).expect("open rocksdb"), sc),
        _ => run_on(&|| Fjall::open(&path, Plugin::default()).expect("open fjall"), sc),
    }));
    match r {
        Ok(o) => o,
        Err(p) => {
            let msg = p
                .downcast_ref::<&str>()
                .map(|s| (*s).to_string())
                .or_else(|| p.downcast_ref::<String>().cloned())
                .unwrap_or_else(|| "<non-string payload>".into());
            Outcome { failure: Some(("panic".into(), format!("backend {} panicked: {msg}", sc.backend))), ..Outcome::default() }
        }
    }
}

#[derive(Clone, Debug, Serialize, Deserialize)]
struct ReplayFile {
    property: String,
    harness: String,
    seed: u64,
    scenario: Scenario,
    class: String,
    message: String,
    known: Option<String>,
}

fn arg(args: &[String], name: &str) -> Option<String> {
    args.iter().position(|a| a == name).and_then(|i| args.get(i + 1).cloned())
}

static CURRENT_RUN: std::sync::Mutex<Option<(Instant, String)>> = std::sync::Mutex::new(None);

fn start_watchdog() {
    let limit = simkit::env_u64("VERIF_STUCK_S", 40);
    std::thread::spawn(move || {
        loop {
            std::thread::sleep(std::time::Duration::from_millis(500));
            let stuck = {
                let g = CURRENT_RUN.lock().unwrap();
                g.as_ref().and_then(|(t, j)| (t.elapsed().as_secs() >= limit).then(|| j.clone()))
            };
            if let Some(j) = stuck {
                println!("{j}");
                std::process::exit(0);
            }
        }
    });
}

fn batch(args: &[String]) {
    start_watchdog();
    let seed: u64 = arg(args, "--seed").and_then(|s| s.parse().ok()).unwrap_or(1);
    let worker: u64 = arg(args, "--worker").and_then(|s| s.parse().ok()).unwrap_or(0);
    let workers: u64 = arg(args, "--workers").and_then(|s| s.parse().ok()).unwrap_or(1);
    let budget: f64 = arg(args, "--budget-s").and_then(|s| s.parse().ok()).unwrap_or(10.0);
    let max_runs: u64 = arg(args, "--max-runs").and_then(|s| s.parse().ok()).unwrap_or(u64::MAX);
    let thorough = arg(args, "--tier").as_deref() == Some("thorough");
    let base = mix(seed, label("kv_sim/C11"));
    let start = Instant::now();
    let mut runs = 0u64;
    let mut shapes: HashSet<u64> = HashSet::new();
    let mut totals: BTreeMap<String, u64> = BTreeMap::new();
    let mut samples = Vec::new();
    let mut failures = 0u64;
    let stdout = std::io::stdout();
    let mut i = worker;
    while runs < max_runs && start.elapsed().as_secs_f64() < budget {
        let run_seed = mix(base, i);
        let sc = generate(run_seed, thorough);
        {
            let rf = ReplayFile { property: "C11".into(), harness: "kv_sim".into(), seed: run_seed, scenario: sc.clone(), class: "stuck".into(),
                message: "a backend call did not return (wall-clock backstop)".into(), known: None };
            *CURRENT_RUN.lock().unwrap() = Some((Instant::now(), serde_json::json!({"type": "failure", "i": i, "replay": rf}).to_string()));
        }
        let out = run(&sc);
        *CURRENT_RUN.lock().unwrap() = None;
        runs += 1;
        if runs % 8 == 0 {
            // cumulative summary: the last one counts
            writeln!(
                stdout.lock(),
                "{}",
                serde_json::json!({"type": "summary", "prop": "C11", "worker": worker, "runs": runs, "failures": failures, "known": 0,
                    "nontrivial_shapes": shapes.iter().collect::<Vec<_>>(), "traces": runs, "totals": totals, "probes": {},
                    "faults": {}, "samples": samples, "wall_s": start.elapsed().as_secs_f64()})
            )
            .unwrap();
        }
        if out.nontrivial {
            shapes.insert(simkit::fnv(&serde_json::to_vec(&sc).unwrap()));
        }
        for (k, v) in [("reads", out.reads), ("reopens", out.reopen), ("commits", out.commits), ("abandoned_batches", out.abandoned)] {
            *totals.entry(k.to_string()).or_insert(0) += v;
        }
        *totals.entry(format!("runs_{}", sc.backend)).or_insert(0) += 1;
        if samples.len() < 2 && out.nontrivial && sc.ops.len() < 40 {
            samples.push(serde_json::json!({"run_seed": run_seed, "scenario": sc}));
        }
        if let Some((class, msg)) = out.failure {
            failures += 1;
            let rf = ReplayFile { property: "C11".into(), harness: "kv_sim".into(), seed: run_seed, scenario: sc, class, message: msg, known: None };
            writeln!(stdout.lock(), "{}", serde_json::json!({"type": "failure", "i": i, "replay": rf})).unwrap();
        }
        i += workers;
    }
    let mut faults = BTreeMap::new();
    faults.insert("close_and_reopen", totals.get("reopens").copied().unwrap_or(0));
    faults.insert("abandoned_batch", totals.get("abandoned_batches").copied().unwrap_or(0));
    writeln!(
        stdout.lock(),
        "{}",
        serde_json::json!({"type": "summary", "prop": "C11", "worker": worker, "runs": runs, "failures": failures, "known": 0,
            "nontrivial_shapes": shapes.iter().collect::<Vec<_>>(), "traces": runs, "totals": totals, "probes": {},
            "faults": faults, "samples": samples, "wall_s": start.elapsed().as_secs_f64()})
    )
    .unwrap();
}

fn replay(args: &[String]) -> i32 {
    let rf: ReplayFile = serde_json::from_str(&std::fs::read_to_string(&args[0]).expect("read")).expect("parse");
    // the backends' own threads are not scheduled: a result counts as
    // reproduced only if it is stable over repeated executions
    let mut classes = Vec::new();
    let mut msg = String::new();
    for _ in 0..3 {
        let out = run(&rf.scenario);
        match out.failure {
            Some((c, m)) => {
                classes.push(c);
                msg = m;
            }
            None => classes.push("none".to_string()),
        }
    }
    let stable = classes.iter().all(|c| *c == classes[0]);
    let class = if stable { classes[0].clone() } else { "unstable".to_string() };
    let reproduced = class == rf.class;
    println!(
        "{}",
        serde_json::json!({"type": "replay", "file": args[0], "expected_class": rf.class, "class": class,
            "message": msg, "known": null, "reproduced": reproduced, "attempts": classes})
    );
    if reproduced { 0 } else { 3 }
}

fn shrink(args: &[String]) -> i32 {
    let rf: ReplayFile = serde_json::from_str(&std::fs::read_to_string(&args[0]).expect("read")).expect("parse");
    let budget: usize = args.get(2).and_then(|s| s.parse().ok()).unwrap_or(400);
    let mut best = rf.clone();
    let fails = |sc: &Scenario| run(sc).failure.filter(|f| f.0 == rf.class);
    let mut runs = 0;
    if fails(&best.scenario).is_some() {
        let mut progress = true;
        while progress && runs < budget {
            progress = false;
            let n = best.scenario.ops.len();
            let mut chunk = (n / 2).max(1);
            'outer: loop {
                let mut a = 0;
                while a < best.scenario.ops.len() {
                    if runs >= budget {
                        break 'outer;
                    }
                    let mut c = best.scenario.clone();
                    let b = (a + chunk).min(c.ops.len());
                    c.ops.drain(a..b);
                    runs += 1;
                    if let Some((_, m)) = fails(&c) {
                        best.scenario = c;
                        best.message = m;
                        progress = true;
                    } else {
                        a += chunk;
                    }
                }
                if chunk == 1 {
                    break;
                }
                chunk /= 2;
            }
        }
    }
    std::fs::write(&args[1], serde_json::to_string_pretty(&best).unwrap()).expect("write");
    0
}

fn main() {
    simkit::panics::install();
    let args: Vec<String> = std::env::args().skip(1).collect();
    let code = match args.first().map(String::as_str) {
        Some("batch") => {
            batch(&args[1..]);
            0
        }
        Some("replay") => replay(&args[1..]),
        Some("shrink") => shrink(&args[1..]),
        _ => 2,
    };
    std::process::exit(code);
}
