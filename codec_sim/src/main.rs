//! codec_sim: the serializer against simulated streams (C12) and the stable
//! hash against construction histories, processes and near-miss pairs (C13).
//!
//!   codec_sim batch --prop C12|C13 --seed 1 --worker 0 --workers 16 --budget-s 30
//!   codec_sim replay <file>
//!   codec_sim shrink <file> <out>
//!   codec_sim hashes --seed S --count N          (helper process for C13)

mod more;
mod values;

use std::{
    borrow::Cow,
    cell::{Cell, RefCell},
    cmp::Reverse,
    collections::{BTreeMap, BTreeSet, BinaryHeap, HashMap, HashSet, LinkedList, VecDeque},
    ffi::{CString, OsString},
    io::{self, Read, Write},
    marker::PhantomData,
    num::{NonZeroI16, NonZeroI128, NonZeroU8, NonZeroU32, NonZeroU64, NonZeroUsize, Wrapping},
    ops::{Bound, Range, RangeFrom, RangeFull, RangeInclusive, RangeTo, RangeToInclusive},
    path::PathBuf,
    rc::Rc,
    sync::{
        Arc, Mutex,
        atomic::{AtomicBool, AtomicI64, AtomicU8, AtomicU32},
    },
    time::{Duration, Instant},
};

use bitvec::{order::{Lsb0, Msb0}, vec::BitVec};
use dashmap::{DashMap, DashSet};
use smallvec::SmallVec;
use more::{Big, EnSkip, GenTupSkip, HPair, NamedSkipEnds, Pair, TupSkipMid, TupSkipMixed, Wide};

use qbice::{Decode, Encode, StableHash};
use qbice_serialize::{Decoder, Encoder, Plugin, PostcardDecoder, PostcardEncoder};
use qbice_stable_hash::{BuildStableHasher, SeededStableHasherBuilder, Sip128Hasher, StableHasher};
use qbice_storage::intern::{Interned, Interner};
use serde::{Deserialize, Serialize};
use simkit::{Rng, label, mix};
use values::{En, Gen, GenE, Named, PairI128, PairU128, PairU16, PairU32, PairU64, SeededState, Tup, UnitS, V, WithSkip};

// ---- simulated streams ---------------------------------------------------------------

/// accepts 1..=k bytes per `write` and may report `Interrupted`
struct SimWriter {
    buf: Vec<u8>,
    rng: Rng,
    k: usize,
    eintr: u64,
    pub writes: u64,
    pub interrupts: u64,
    pub short: u64,
}

impl Write for SimWriter {
    fn write(&mut self, data: &[u8]) -> io::Result<usize> {
        if data.is_empty() {
            return Ok(0);
        }
        if self.eintr > 0 && self.rng.chance(self.eintr, 16) {
            self.interrupts += 1;
            return Err(io::Error::from(io::ErrorKind::Interrupted));
        }
        let n = (1 + self.rng.usize(self.k)).min(data.len());
        if n < data.len() {
            self.short += 1;
        }
        self.writes += 1;
        self.buf.extend_from_slice(&data[..n]);
        Ok(n)
    }
    fn flush(&mut self) -> io::Result<()> { Ok(()) }
}

/// returns 1..=k bytes per `read` and may report `Interrupted`
struct SimReader {
    data: Vec<u8>,
    pos: usize,
    rng: Rng,
    k: usize,
    eintr: u64,
    pub interrupts: u64,
    pub short: u64,
}

impl Read for SimReader {
    fn read(&mut self, out: &mut [u8]) -> io::Result<usize> {
        if out.is_empty() || self.pos >= self.data.len() {
            return Ok(0);
        }
        if self.eintr > 0 && self.rng.chance(self.eintr, 16) {
            self.interrupts += 1;
            return Err(io::Error::from(io::ErrorKind::Interrupted));
        }
        let n = (1 + self.rng.usize(self.k)).min(out.len()).min(self.data.len() - self.pos);
        if n < out.len() {
            self.short += 1;
        }
        out[..n].copy_from_slice(&self.data[self.pos..self.pos + n]);
        self.pos += n;
        Ok(n)
    }
}

// ---- C12 items ------------------------------------------------------------------------------

trait Item {
    fn enc(&self, e: &mut PostcardEncoder<SimWriter>, p: &Plugin) -> io::Result<()>;
    fn enc_plain(&self, e: &mut PostcardEncoder<Vec<u8>>, p: &Plugin) -> io::Result<()>;
    fn dec_cmp(&self, d: &mut PostcardDecoder<SimReader>, p: &Plugin) -> Result<(), String>;
    fn ty(&self) -> String;
}

struct Hold<T>(T);

impl<T: V + Encode + Decode> Item for Hold<T> {
    fn enc(&self, e: &mut PostcardEncoder<SimWriter>, p: &Plugin) -> io::Result<()> { e.encode(&self.0, p) }
    fn enc_plain(&self, e: &mut PostcardEncoder<Vec<u8>>, p: &Plugin) -> io::Result<()> { e.encode(&self.0, p) }
    fn dec_cmp(&self, d: &mut PostcardDecoder<SimReader>, p: &Plugin) -> Result<(), String> {
        let got: T = d.decode(p).map_err(|e| format!("decode of {} failed: {e}", T::name()))?;
        if got.same(&self.0) { Ok(()) } else { Err(format!("a value of type {} changed in the round trip", T::name())) }
    }
    fn ty(&self) -> String { T::name() }
}

thread_local! {
    static INTERNER: Interner = Interner::new(4, SeededStableHasherBuilder::<Sip128Hasher>::new(11));
}

/// repeated interned handles: values and sharing must survive
struct SharedItem {
    sized: Vec<Interned<Named>>,
    unsized_: Vec<Interned<str>>,
    nested: Vec<(Interned<str>, Option<Interned<Named>>)>,
    /// the same text interned as `String` and as `str`: two types, one
    /// content hash (seeded changes C07-4 / C12-4 / C15-3)
    twins: Vec<(Interned<String>, Interned<str>)>,
}

impl SharedItem {
    fn gen_item(r: &mut Rng) -> Self {
        let pool: Vec<Named> = (0..r.range(1, 3)).map(|_| Named::gen_v(r, 1)).collect();
        let spool: Vec<String> = (0..r.range(1, 3)).map(|_| String::gen_v(r, 1)).collect();
        INTERNER.with(|i| SharedItem {
            sized: (0..r.range(1, 6)).map(|_| i.intern(r.pick(&pool).clone())).collect(),
            unsized_: (0..r.range(1, 6)).map(|_| i.intern_unsized::<str, _>(r.pick(&spool).clone())).collect(),
            nested: (0..r.range(0, 4))
                .map(|_| (i.intern_unsized::<str, _>(r.pick(&spool).clone()), r.chance(1, 2).then(|| i.intern(r.pick(&pool).clone()))))
                .collect(),
            twins: (0..r.range(0, 2))
                .map(|_| {
                    let s = r.pick(&spool).clone();
                    if r.chance(1, 2) {
                        let a = i.intern(s.clone());
                        (a, i.intern_unsized::<str, _>(s))
                    } else {
                        let b = i.intern_unsized::<str, _>(s.clone());
                        (i.intern(s), b)
                    }
                })
                .collect(),
        })
    }
}

impl Item for SharedItem {
    fn enc(&self, e: &mut PostcardEncoder<SimWriter>, p: &Plugin) -> io::Result<()> {
        e.encode(&self.sized, p)?;
        e.encode(&self.unsized_, p)?;
        e.encode(&self.nested, p)?;
        e.encode(&self.twins, p)
    }
    fn enc_plain(&self, e: &mut PostcardEncoder<Vec<u8>>, p: &Plugin) -> io::Result<()> {
        e.encode(&self.sized, p)?;
        e.encode(&self.unsized_, p)?;
        e.encode(&self.nested, p)?;
        e.encode(&self.twins, p)
    }
    fn dec_cmp(&self, d: &mut PostcardDecoder<SimReader>, p: &Plugin) -> Result<(), String> {
        let a: Vec<Interned<Named>> = d.decode(p).map_err(|e| format!("decode failed: {e}"))?;
        let b: Vec<Interned<str>> = d.decode(p).map_err(|e| format!("decode failed: {e}"))?;
        let c: Vec<(Interned<str>, Option<Interned<Named>>)> = d.decode(p).map_err(|e| format!("decode failed: {e}"))?;
        let t: Vec<(Interned<String>, Interned<str>)> = d.decode(p).map_err(|e| format!("decode failed: {e}"))?;
        if t.len() != self.twins.len() || t.iter().zip(&self.twins).any(|(x, y)| *x.0 != *y.0 || *x.1 != *y.1) {
            return Err("interned String / str values of equal content changed in the round trip".into());
        }
        if a.len() != self.sized.len() || a.iter().zip(&self.sized).any(|(x, y)| **x != **y) {
            return Err("interned sized values changed in the round trip".into());
        }
        if b.len() != self.unsized_.len() || b.iter().zip(&self.unsized_).any(|(x, y)| **x != **y) {
            return Err("interned str values changed in the round trip".into());
        }
        if c.len() != self.nested.len()
            || c.iter().zip(&self.nested).any(|(x, y)| *x.0 != *y.0 || x.1.as_ref().map(|h| (**h).clone()) != y.1.as_ref().map(|h| (**h).clone()))
        {
            return Err("nested interned values changed in the round trip".into());
        }
        // equal values share one allocation again
        for i in 0..a.len() {
            for j in 0..a.len() {
                if *a[i] == *a[j] && !std::ptr::eq(&*a[i], &*a[j]) {
                    return Err("decoded duplicates of an interned value do not share one allocation".into());
                }
            }
        }
        for i in 0..b.len() {
            for j in 0..b.len() {
                if *b[i] == *b[j] && !std::ptr::eq(b[i].as_ptr(), b[j].as_ptr()) {
                    return Err("decoded duplicates of an interned str do not share one allocation".into());
                }
            }
        }
        Ok(())
    }
    fn ty(&self) -> String { "repeated Interned<Named> / Interned<str>".into() }
}

macro_rules! c12_types {
    ($($t:ty),* $(,)?) => {
        fn c12_count() -> usize { [$(stringify!($t)),*].len() }
        fn c12_make(i: usize, r: &mut Rng) -> Box<dyn Item> {
            let mut k = 0usize;
            $(
                if i == k { return Box::new(Hold(<$t as V>::gen_v(r, 3))); }
                k += 1;
            )*
            let _ = k;
            Box::new(SharedItem::gen_item(r))
        }
    };
}

type HM<K, W> = HashMap<K, W, SeededState>;
type HS<K> = HashSet<K, SeededState>;
type DM<K, W> = DashMap<K, W, SeededState>;
type DS<K> = DashSet<K, SeededState>;

// Append only: replay files name types by their index in this list.
c12_types!(
    u8, u16, u32, u64, u128, usize, i8, i16, i32, i64, i128, isize, bool, char, f32, f64, (), String,
    Vec<u8>, Vec<u64>, Vec<String>, Vec<Vec<u8>>, Vec<Option<String>>, Vec<(u8, String)>, Vec<Vec<Vec<u16>>>,
    VecDeque<i32>, VecDeque<String>, LinkedList<u64>, LinkedList<Option<i8>>,
    Option<u8>, Option<String>, Option<Option<u8>>, Option<Vec<u8>>, Result<u8, String>, Result<Vec<u8>, (u8, u8)>,
    (u8, u8), (String, String), (Vec<u8>, Vec<u8>), (u64, Option<String>, Vec<i64>), ((u8, u8), (String, ())),
    [u8; 0], [u8; 3], [String; 2], [Option<u16>; 4], [[u8; 2]; 2],
    Box<u64>, Box<String>, Rc<Vec<u8>>, Arc<String>, Arc<Vec<Option<u8>>>, Box<(u8, String)>,
    BTreeMap<u8, String>, BTreeMap<String, Vec<u8>>, BTreeSet<i64>, BTreeSet<String>, BTreeMap<u8, BTreeMap<u8, u8>>,
    HM<u32, String>, HM<String, Vec<u8>>, HS<u64>, HS<String>, HM<u8, HS<u8>>, Vec<HM<u8, u8>>,
    Named, Tup, UnitS, En, Gen<u8>, Gen<String>, Gen<Vec<u8>>, GenE<u8, String>, GenE<Vec<u8>, Option<u8>>, WithSkip,
    Vec<Named>, Option<En>, BTreeMap<String, En>, (Named, En, Tup), Vec<Gen<Option<String>>>,
    // second part of the universe (more.rs)
    (u8,), (String,), (u8, String, Vec<u8>, Option<u8>), (u8, u16, u32, u64, String),
    (u8, u8, u8, u8, u8, u8, u8, u8, u8, u8, u8, String),
    Box<[u8]>, Rc<[String]>, Arc<[Option<u16>]>, Box<str>, Rc<str>, Arc<str>, PathBuf, Cow<'static, str>, Cow<'static, [u8]>,
    PhantomData<u8>, Duration, Cell<u32>, RefCell<String>, Wrapping<u16>, Reverse<String>,
    NonZeroU8, NonZeroU32, NonZeroU64, NonZeroI16, NonZeroI128, NonZeroUsize, AtomicBool, AtomicU8, AtomicU32, AtomicI64,
    Range<u32>, RangeInclusive<i64>, RangeFrom<u8>, RangeTo<String>, RangeToInclusive<u16>, RangeFull, Bound<u32>, Bound<String>,
    DM<u32, String>, DS<u64>, Vec<DS<u8>>,
    TupSkipMid, TupSkipMixed, GenTupSkip<String>, GenTupSkip<u8>, NamedSkipEnds, EnSkip, Big, Vec<Big>, Vec<EnSkip>, (TupSkipMid, u8),
    Option<TupSkipMixed>, BTreeMap<u8, EnSkip>,
    Pair<String>, Pair<Vec<u8>>, Pair<PathBuf>, Pair<Box<str>>, Pair<VecDeque<u8>>, Pair<Vec<String>>,
    // optional features of the serializer
    SmallVec<[u8; 4]>, SmallVec<[String; 2]>, Vec<SmallVec<[u16; 1]>>,
    BitVec<u8, Lsb0>, BitVec<u8, Msb0>, BitVec<usize, Lsb0>, BitVec<u32, Msb0>, (BitVec<usize, Lsb0>, u8),
    Wide, Vec<Wide>, (Wide, u8),
);

#[derive(Clone, Debug, Serialize, Deserialize)]
struct C12Scenario {
    seed: u64,
    types: Vec<usize>,
    wk: usize,
    rk: usize,
    eintr: u64,
}

fn c12_generate(seed: u64) -> C12Scenario {
    let mut r = Rng::new(seed).split(label("c12-workload"));
    let n = r.range(1, 8);
    C12Scenario {
        seed,
        types: (0..n).map(|_| r.usize(c12_count() + 1)).collect(),
        wk: *r.pick(&[1, 1, 2, 3, 7, 64]),
        rk: *r.pick(&[1, 1, 2, 3, 7, 64]),
        eintr: *r.pick(&[0, 1, 4]),
    }
}

#[derive(Default)]
struct Out {
    failure: Option<(String, String)>,
    nontrivial: bool,
    stats: BTreeMap<String, u64>,
    faults: BTreeMap<String, u64>,
    detail: String,
}

const SENTINEL: [u8; 4] = [0xA5, 0x5A, 0xA5, 0x5A];

fn c12_run(sc: &C12Scenario) -> Out {
    let mut out = Out::default();
    let mut r = Rng::new(sc.seed).split(label("c12-values"));
    let items: Vec<Box<dyn Item>> = sc.types.iter().map(|t| c12_make(*t, &mut r)).collect();
    out.detail = items.iter().map(|i| i.ty()).collect::<Vec<_>>().join(" ++ ");
    let mut plugin = Plugin::default();
    INTERNER.with(|i| plugin.insert(i.clone()));
    let fault = Rng::new(sc.seed).split(label("c12-faults"));
    let mut enc = PostcardEncoder::new(SimWriter { buf: Vec::new(), rng: fault.split(1), k: sc.wk, eintr: sc.eintr, writes: 0, interrupts: 0, short: 0 });
    let mut plain = PostcardEncoder::new(Vec::new());
    for it in &items {
        if let Err(e) = it.enc(&mut enc, &plugin) {
            out.failure = Some(("codec_error".into(), format!("encoding {} into a stream that accepts 1..={} bytes per write failed: {e}", it.ty(), sc.wk)));
            return out;
        }
    }
    // the same values through one plain encoder, back to back
    for it in &items {
        it.enc_plain(&mut plain, &plugin).expect("plain encode");
    }
    let w = enc.into_inner();
    let plain = plain.into_inner();
    if w.buf != plain {
        out.failure = Some(("codec_stream_differs".into(), format!("the bytes written through a chunked / interrupted stream differ from a plain write ({} vs {} bytes) for {}", w.buf.len(), plain.len(), out.detail)));
        return out;
    }
    let total = w.buf.len();
    let mut data = w.buf;
    data.extend_from_slice(&SENTINEL);
    let mut dec = PostcardDecoder::new(SimReader { data, pos: 0, rng: fault.split(2), k: sc.rk, eintr: sc.eintr, interrupts: 0, short: 0 });
    for (n, it) in items.iter().enumerate() {
        if let Err(m) = it.dec_cmp(&mut dec, &plugin) {
            out.failure = Some(("roundtrip_mismatch".into(), format!("value {n} of [{}]: {m}", out.detail)));
            return out;
        }
    }
    let rd = dec.into_inner();
    // the same bytes decoded where none of the interned values is alive (a
    // new process): a fresh interner
    {
        let bytes = rd.data.clone();
        let items_ref = &items;
        let k = sc.rk;
        let eintr = sc.eintr;
        let frng = fault.split(3);
        let res = std::panic::catch_unwind(std::panic::AssertUnwindSafe(|| -> Result<(), String> {
            let mut plugin2 = Plugin::default();
            plugin2.insert(Interner::new(4, SeededStableHasherBuilder::<Sip128Hasher>::new(11)));
            let mut dec2 = PostcardDecoder::new(SimReader { data: bytes, pos: 0, rng: frng, k, eintr, interrupts: 0, short: 0 });
            for (n, it) in items_ref.iter().enumerate() {
                it.dec_cmp(&mut dec2, &plugin2).map_err(|m| format!("value {n}: {m}"))?;
            }
            Ok(())
        }));
        let err = match res {
            Ok(Ok(())) => None,
            Ok(Err(m)) => Some(m),
            Err(p) => Some(format!(
                "panic: {}",
                p.downcast_ref::<&str>().map(|s| (*s).to_string()).or_else(|| p.downcast_ref::<String>().cloned()).unwrap_or_default()
            )),
        };
        if let Some(m) = err {
            out.failure = Some(("roundtrip_mismatch".into(), format!("decoding [{}] with a fresh interner (as a new process would): {m}", out.detail)));
            return out;
        }
    }
    if rd.data[rd.pos..] != SENTINEL {
        out.failure = Some((
            "codec_consumption".into(),
            format!("after decoding [{}] the reader is at byte {} of {total}: values written back to back are not read back exactly", out.detail, rd.pos),
        ));
        return out;
    }
    out.stats.insert("bytes".into(), total as u64);
    out.stats.insert("values".into(), items.len() as u64);
    out.faults.insert("short_write".into(), w.short);
    out.faults.insert("write_interrupted".into(), w.interrupts);
    out.faults.insert("short_read".into(), rd.short);
    out.faults.insert("read_interrupted".into(), rd.interrupts);
    out.nontrivial = total > 1 && (w.short > 0 || rd.short > 0);
    out
}

/// integer domains: exhaustive at 16 bits
fn c12_exhaustive16() -> (u64, Option<String>) {
    let plugin = Plugin::default();
    let mut n = 0u64;
    for x in 0..=u16::MAX {
        for signed in [false, true] {
            let mut e = PostcardEncoder::new(Vec::new());
            if signed { e.encode(&(x as i16), &plugin).unwrap() } else { e.encode(&x, &plugin).unwrap() }
            let mut bytes = e.into_inner();
            let len = bytes.len();
            bytes.push(0x77);
            let mut d = PostcardDecoder::new(std::io::Cursor::new(bytes));
            let ok = if signed { d.decode::<i16>(&plugin).ok() == Some(x as i16) } else { d.decode::<u16>(&plugin).ok() == Some(x) };
            n += 1;
            if !ok || d.into_inner().position() as usize != len {
                return (n, Some(format!("{}16 value {x} does not round-trip exactly", if signed { "i" } else { "u" })));
            }
        }
    }
    (n, None)
}

// ---- C13 ----------------------------------------------------------------------------------

/// records the stream a value feeds to the hasher; sub-hashed children of one
/// group are kept as a sorted multiset of their own streams
struct Rec {
    bytes: Vec<u8>,
    pending: Mutex<Vec<Vec<u8>>>,
}

impl Rec {
    fn new() -> Self { Rec { bytes: Vec::new(), pending: Mutex::new(Vec::new()) } }
    fn flush(&mut self) {
        let mut p = std::mem::take(&mut *self.pending.lock().unwrap());
        if p.is_empty() {
            return;
        }
        p.sort();
        self.bytes.extend_from_slice(b"\xFE<subs");
        self.bytes.extend_from_slice(&(p.len() as u64).to_le_bytes());
        for c in p {
            self.bytes.extend_from_slice(&(c.len() as u64).to_le_bytes());
            self.bytes.extend_from_slice(&c);
        }
        self.bytes.extend_from_slice(b">");
    }
    fn flat(mut self) -> Vec<u8> {
        self.flush();
        self.bytes
    }
}

fn h128(b: &[u8]) -> u128 { (u128::from(simkit::fnv(b)) << 64) | u128::from(simkit::fnv_step(simkit::fnv(b), b.len() as u64)) }

impl StableHasher for Rec {
    type Hash = u128;
    fn finish(&self) -> u128 { h128(&self.bytes) }
    fn write(&mut self, bytes: &[u8]) {
        self.flush();
        self.bytes.extend_from_slice(bytes);
    }
    fn sub_hash(&self, f: &mut dyn FnMut(&mut dyn StableHasher<Hash = u128>)) -> u128 {
        let mut child = Rec::new();
        f(&mut child);
        let flat = child.flat();
        let h = h128(&flat);
        self.pending.lock().unwrap().push(flat);
        h
    }
}

fn flat_of<T: StableHash>(v: &T) -> Vec<u8> {
    let mut r = Rec::new();
    v.stable_hash(&mut r);
    r.flat()
}

fn real_hash<T: StableHash>(v: &T) -> u128 {
    let mut h = SeededStableHasherBuilder::<Sip128Hasher>::new(42).build_stable_hasher();
    v.stable_hash(&mut h);
    h.finish()
}

trait Rebuild: V {
    /// an equal value built through a different construction history
    fn rebuild(&self, r: &mut Rng) -> Self;
}

macro_rules! rebuild_dup { ($($t:ty),*) => {$( impl Rebuild for $t { fn rebuild(&self, _r: &mut Rng) -> Self { self.dup() } } )*}; }
rebuild_dup!(u8, u16, u32, u64, u128, i8, i16, i32, i64, i128, bool, char, (), String, Named, Tup, UnitS, En, PairU16, PairU32, PairU64, PairU128, PairI128);
// a NaN is one value whatever computation produced it (sign, payload, quiet
// or signalling): the stable hash normalises NaNs
impl Rebuild for f32 {
    fn rebuild(&self, r: &mut Rng) -> Self {
        if self.is_nan() { f32::from_bits(*r.pick(&values::NANS32)) } else { *self }
    }
}
impl Rebuild for f64 {
    fn rebuild(&self, r: &mut Rng) -> Self {
        if self.is_nan() { f64::from_bits(*r.pick(&values::NANS64)) } else { *self }
    }
}
impl<T: Rebuild> Rebuild for Vec<T> {
    fn rebuild(&self, r: &mut Rng) -> Self {
        let mut v = Vec::with_capacity(self.len() + r.usize(9));
        for x in self {
            v.push(x.rebuild(r));
        }
        if r.chance(1, 2) {
            v.shrink_to_fit();
        }
        v
    }
}
impl<T: Rebuild> Rebuild for Option<T> { fn rebuild(&self, r: &mut Rng) -> Self { self.as_ref().map(|x| x.rebuild(r)) } }
impl<T: Rebuild> Rebuild for Box<T> { fn rebuild(&self, r: &mut Rng) -> Self { Box::new((**self).rebuild(r)) } }
impl<T: Rebuild> Rebuild for Arc<T> { fn rebuild(&self, r: &mut Rng) -> Self { Arc::new((**self).rebuild(r)) } }
impl<A: Rebuild, B: Rebuild> Rebuild for (A, B) { fn rebuild(&self, r: &mut Rng) -> Self { (self.0.rebuild(r), self.1.rebuild(r)) } }
impl<A: Rebuild, B: Rebuild, C: Rebuild> Rebuild for (A, B, C) {
    fn rebuild(&self, r: &mut Rng) -> Self { (self.0.rebuild(r), self.1.rebuild(r), self.2.rebuild(r)) }
}
impl<T: Rebuild, E: Rebuild> Rebuild for Result<T, E> {
    fn rebuild(&self, r: &mut Rng) -> Self {
        match self {
            Ok(v) => Ok(v.rebuild(r)),
            Err(e) => Err(e.rebuild(r)),
        }
    }
}
impl<K: Rebuild + Ord, W: Rebuild> Rebuild for BTreeMap<K, W> {
    fn rebuild(&self, r: &mut Rng) -> Self {
        let mut items: Vec<(K, W)> = self.iter().map(|(k, v)| (k.rebuild(r), v.rebuild(r))).collect();
        r.shuffle(&mut items);
        items.into_iter().collect()
    }
}
impl<K: Rebuild + Ord> Rebuild for BTreeSet<K> {
    fn rebuild(&self, r: &mut Rng) -> Self {
        let mut items: Vec<K> = self.iter().map(|k| k.rebuild(r)).collect();
        r.shuffle(&mut items);
        items.into_iter().collect()
    }
}
impl<K: Rebuild + Eq + std::hash::Hash, W: Rebuild> Rebuild for HM<K, W> {
    fn rebuild(&self, r: &mut Rng) -> Self {
        // another hasher state, another insertion order, spare capacity,
        // entries removed and re-inserted
        let mut m = HashMap::with_capacity_and_hasher(r.usize(64), SeededState(r.next_u64()));
        let mut items: Vec<(K, W)> = self.iter().map(|(k, v)| (k.rebuild(r), v.rebuild(r))).collect();
        r.shuffle(&mut items);
        let mut again = Vec::new();
        for (k, v) in items {
            if r.chance(1, 3) {
                again.push((k.dup(), v.dup()));
            }
            m.insert(k, v);
        }
        for (k, v) in again {
            m.remove(&k);
            m.insert(k, v);
        }
        if r.chance(1, 2) {
            m.shrink_to_fit();
        }
        m
    }
}
impl<K: Rebuild + Eq + std::hash::Hash> Rebuild for HS<K> {
    fn rebuild(&self, r: &mut Rng) -> Self {
        let mut m = HashSet::with_capacity_and_hasher(r.usize(64), SeededState(r.next_u64()));
        let mut items: Vec<K> = self.iter().map(|k| k.rebuild(r)).collect();
        r.shuffle(&mut items);
        for k in items {
            m.insert(k);
        }
        m
    }
}

rebuild_dup!(
    Wide, PathBuf, OsString, CString, Duration, NonZeroU32, NonZeroI128, Big, PhantomData<u8>, Box<str>, Arc<str>, AtomicU32,
    RangeFull
);
impl<T: Rebuild> Rebuild for VecDeque<T> {
    fn rebuild(&self, r: &mut Rng) -> Self {
        // the ring buffer starts somewhere else: the back half is pushed at
        // the back, the front half at the front, then elements travel round
        let items: Vec<T> = self.iter().map(|x| x.rebuild(r)).collect();
        let mid = r.usize(items.len() + 1);
        let mut d = VecDeque::with_capacity(items.len() + r.usize(9));
        let mut front: Vec<T> = Vec::new();
        for (i, x) in items.into_iter().enumerate() {
            if i < mid {
                front.push(x);
            } else {
                d.push_back(x);
            }
        }
        for x in front.into_iter().rev() {
            d.push_front(x);
        }
        for _ in 0..r.usize(4) {
            if let Some(x) = d.pop_front() {
                d.push_back(x);
                d.rotate_right(1);
            }
        }
        d
    }
}
impl<T: Rebuild> Rebuild for LinkedList<T> {
    fn rebuild(&self, r: &mut Rng) -> Self {
        let mut l = LinkedList::new();
        let items: Vec<T> = self.iter().map(|x| x.rebuild(r)).collect();
        for x in items.into_iter().rev() {
            l.push_front(x);
        }
        l
    }
}
impl<T: Rebuild + Ord> Rebuild for BinaryHeap<T> {
    fn rebuild(&self, r: &mut Rng) -> Self {
        // another insertion order gives another layout of the backing array;
        // so does taking the top off and putting it back
        let mut items: Vec<T> = self.iter().map(|x| x.rebuild(r)).collect();
        r.shuffle(&mut items);
        let mut h = BinaryHeap::with_capacity(items.len() + r.usize(9));
        for x in items {
            h.push(x);
        }
        for _ in 0..r.usize(3) {
            if let Some(x) = h.pop() {
                h.push(x);
            }
        }
        h
    }
}
impl<T: Rebuild, const N: usize> Rebuild for [T; N] {
    fn rebuild(&self, r: &mut Rng) -> Self { std::array::from_fn(|i| self[i].rebuild(r)) }
}
impl<T: Rebuild> Rebuild for Rc<T> { fn rebuild(&self, r: &mut Rng) -> Self { Rc::new((**self).rebuild(r)) } }
impl<T: Rebuild> Rebuild for Box<[T]> {
    fn rebuild(&self, r: &mut Rng) -> Self { self.iter().map(|x| x.rebuild(r)).collect::<Vec<T>>().into_boxed_slice() }
}
impl<T: Rebuild> Rebuild for Range<T> { fn rebuild(&self, r: &mut Rng) -> Self { self.start.rebuild(r)..self.end.rebuild(r) } }
impl<T: Rebuild> Rebuild for RangeInclusive<T> { fn rebuild(&self, r: &mut Rng) -> Self { self.start().rebuild(r)..=self.end().rebuild(r) } }
impl<T: Rebuild> Rebuild for RangeFrom<T> { fn rebuild(&self, r: &mut Rng) -> Self { self.start.rebuild(r).. } }
impl<T: Rebuild> Rebuild for RangeTo<T> { fn rebuild(&self, r: &mut Rng) -> Self { ..self.end.rebuild(r) } }
impl<T: Rebuild> Rebuild for RangeToInclusive<T> { fn rebuild(&self, r: &mut Rng) -> Self { ..=self.end.rebuild(r) } }
impl<A: Rebuild> Rebuild for (A,) { fn rebuild(&self, r: &mut Rng) -> Self { (self.0.rebuild(r),) } }
impl<A: Rebuild, B: Rebuild, C: Rebuild, D: Rebuild> Rebuild for (A, B, C, D) {
    fn rebuild(&self, r: &mut Rng) -> Self { (self.0.rebuild(r), self.1.rebuild(r), self.2.rebuild(r), self.3.rebuild(r)) }
}
impl<A: Rebuild, L: Rebuild> Rebuild for (A, A, A, A, A, A, A, A, A, A, A, L) {
    fn rebuild(&self, r: &mut Rng) -> Self {
        (
            self.0.rebuild(r),
            self.1.rebuild(r),
            self.2.rebuild(r),
            self.3.rebuild(r),
            self.4.rebuild(r),
            self.5.rebuild(r),
            self.6.rebuild(r),
            self.7.rebuild(r),
            self.8.rebuild(r),
            self.9.rebuild(r),
            self.10.rebuild(r),
            self.11.rebuild(r),
        )
    }
}
impl<K: Rebuild + Eq + std::hash::Hash, W: Rebuild> Rebuild for DM<K, W> {
    fn rebuild(&self, r: &mut Rng) -> Self {
        // another hasher state, shard count and insertion order
        let m = DashMap::with_capacity_and_hasher_and_shard_amount(r.usize(64), SeededState(r.next_u64()), 1 << r.range(1, 5));
        let mut items: Vec<(K, W)> = self.iter().map(|e| (e.key().rebuild(r), e.value().rebuild(r))).collect();
        r.shuffle(&mut items);
        for (k, v) in items {
            if r.chance(1, 3) {
                m.insert(k.dup(), v.dup());
                m.remove(&k);
            }
            m.insert(k, v);
        }
        m
    }
}
impl<K: Rebuild + Eq + std::hash::Hash> Rebuild for DS<K> {
    fn rebuild(&self, r: &mut Rng) -> Self {
        let m = DashSet::with_capacity_and_hasher(r.usize(64), SeededState(r.next_u64()));
        let mut items: Vec<K> = self.iter().map(|k| k.key().rebuild(r)).collect();
        r.shuffle(&mut items);
        for k in items {
            m.insert(k);
        }
        m
    }
}
impl<T: Rebuild + more::Cat> Rebuild for Pair<T> { fn rebuild(&self, r: &mut Rng) -> Self { Pair(self.0.rebuild(r), self.1.rebuild(r)) } }
impl<T: Rebuild + more::Cat> Rebuild for HPair<T> { fn rebuild(&self, r: &mut Rng) -> Self { HPair(self.0.rebuild(r), self.1.rebuild(r)) } }
impl<A: smallvec::Array + 'static> Rebuild for SmallVec<A>
where
    A::Item: Rebuild,
{
    fn rebuild(&self, r: &mut Rng) -> Self {
        // spilled to the heap vs. inline
        let mut v: SmallVec<A> = SmallVec::with_capacity(if r.chance(1, 2) { 0 } else { self.len() + 9 });
        for x in self {
            v.push(x.rebuild(r));
        }
        v
    }
}
impl<T: bitvec::store::BitStore + 'static, O: bitvec::order::BitOrder + 'static> Rebuild for BitVec<T, O> {
    fn rebuild(&self, r: &mut Rng) -> Self {
        // other dead bits in the last element, another capacity
        let mut b: BitVec<T, O> = BitVec::with_capacity(self.len() + r.usize(70));
        for bit in self.iter().by_vals() {
            b.push(bit);
        }
        let extra = r.usize(9);
        for _ in 0..extra {
            b.push(r.chance(1, 2));
        }
        b.truncate(self.len());
        b
    }
}
impl Rebuild for flexstr::SharedStr {
    fn rebuild(&self, r: &mut Rng) -> Self {
        // inline / heap / static storage
        if r.chance(1, 2) { flexstr::SharedStr::from(self.as_str()) } else { flexstr::SharedStr::from_ref(&self.as_str().to_string()) }
    }
}
impl Rebuild for Cow<'static, String> {
    fn rebuild(&self, r: &mut Rng) -> Self {
        // owned vs. borrowed storage
        if r.chance(1, 2) { Cow::Owned((**self).clone()) } else { Cow::Borrowed(Box::leak(Box::new((**self).clone()))) }
    }
}

struct C13Result {
    equal_ok: bool,
    codec_ok: bool,
    near_distinct: Option<bool>,
    real: u128,
    ty: String,
    unordered: bool,
}

fn c13_one<T: Rebuild + StableHash + Encode + Decode>(r: &mut Rng, unordered: bool) -> C13Result {
    c13_any::<T>(r, unordered, &|v: &T, real: u128| {
        // after a serialization round trip
        let plugin = Plugin::default();
        let mut e = PostcardEncoder::new(Vec::new());
        e.encode(v, &plugin).unwrap();
        let bytes = e.into_inner();
        let back: T = PostcardDecoder::new(std::io::Cursor::new(bytes)).decode(&plugin).expect("decode");
        real_hash(&back) == real
    })
}

/// types the stable hash supports and the serializer does not
fn c13_hash<T: Rebuild + StableHash>(r: &mut Rng, unordered: bool) -> C13Result { c13_any::<T>(r, unordered, &|_, _| true) }

fn c13_any<T: Rebuild + StableHash>(r: &mut Rng, unordered: bool, codec: &dyn Fn(&T, u128) -> bool) -> C13Result {
    let v = T::gen_v(r, 3);
    let real = real_hash(&v);
    let mut equal_ok = true;
    values::NAN_IS_ONE_VALUE.with(|c| c.set(true));
    for _ in 0..3 {
        let w = v.rebuild(r);
        equal_ok &= w.same(&v) && real_hash(&w) == real && flat_of(&w) == flat_of(&v);
    }
    values::NAN_IS_ONE_VALUE.with(|c| c.set(false));
    let codec_ok = codec(&v, real);
    let n = v.near(r);
    let near_distinct = if n.same(&v) { None } else { Some(flat_of(&n) != flat_of(&v) && real_hash(&n) != real) };
    C13Result { equal_ok, codec_ok, near_distinct, real, ty: T::name(), unordered }
}

macro_rules! c13_types {
    ($(($t:ty, $u:expr, $f:ident)),* $(,)?) => {
        fn c13_count() -> usize { [$(stringify!($t)),*].len() }
        fn c13_run_type(i: usize, r: &mut Rng) -> C13Result {
            let mut k = 0usize;
            $(
                if i == k { return $f::<$t>(r, $u); }
                k += 1;
            )*
            let _ = k;
            c13_one::<u8>(r, false)
        }
    };
}

// Append only: replay files name types by their index in this list.
c13_types!(
    (u8, false, c13_one), (u64, false, c13_one), (i128, false, c13_one), (bool, false, c13_one), (char, false, c13_one), (f64, false, c13_one), (String, false, c13_one), ((), false, c13_one),
    (Vec<u8>, false, c13_one), (Vec<String>, false, c13_one), (Vec<Vec<u8>>, false, c13_one), (Vec<Option<String>>, false, c13_one), (Vec<(String, String)>, false, c13_one),
    (Option<u8>, false, c13_one), (Option<String>, false, c13_one), (Option<Option<u8>>, false, c13_one), (Result<u8, u8>, false, c13_one), (Result<String, Vec<u8>>, false, c13_one),
    ((String, String), false, c13_one), ((Vec<u8>, Vec<u8>), false, c13_one), ((Option<u8>, Option<u8>), false, c13_one), ((String, u8, String), false, c13_one),
    (Box<String>, false, c13_one), (Arc<Vec<u8>>, false, c13_one),
    (BTreeMap<String, u32>, false, c13_one), (BTreeSet<String>, false, c13_one), (BTreeMap<u8, Vec<u8>>, false, c13_one),
    (HM<String, u32>, true, c13_one), (HM<u32, Vec<u8>>, true, c13_one), (HS<String>, true, c13_one), (HS<u64>, true, c13_one), (HM<u8, HS<u8>>, true, c13_one),
    (Vec<HS<u8>>, true, c13_one), ((HS<u8>, HS<u8>), true, c13_one), (HM<String, Option<String>>, true, c13_one), (Option<HM<u8, u8>>, true, c13_one),
    (Named, false, c13_one), (Tup, false, c13_one), (En, false, c13_one), (Vec<En>, false, c13_one), (Vec<Tup>, false, c13_one), (HM<String, En>, true, c13_one), ((Tup, Tup), false, c13_one),
    (PairU16, false, c13_one), (PairU32, false, c13_one), (PairU64, false, c13_one), (PairU128, false, c13_one), (PairI128, false, c13_one), (Vec<PairU128>, false, c13_one),
    // second part of the universe (more.rs)
    (PathBuf, false, c13_one), (Duration, false, c13_one), (NonZeroU32, false, c13_one), (NonZeroI128, false, c13_one), (AtomicU32, false, c13_one), (PhantomData<u8>, false, c13_one),
    (Range<u32>, false, c13_one), (RangeInclusive<i64>, false, c13_one), (RangeFrom<u8>, false, c13_one), (RangeTo<String>, false, c13_one), (RangeToInclusive<u16>, false, c13_one),
    (RangeFull, false, c13_one), ([u8; 3], false, c13_one), ([String; 2], false, c13_one), (VecDeque<u8>, false, c13_one), (VecDeque<String>, false, c13_one), (LinkedList<String>, false, c13_one),
    (Rc<String>, false, c13_one), (Box<[u8]>, false, c13_one), (Box<str>, false, c13_one), (Arc<str>, false, c13_one),
    ((u8,), false, c13_one), ((u8, String, Vec<u8>, Option<u8>), false, c13_one), ((u8, u8, u8, u8, u8, u8, u8, u8, u8, u8, u8, String), false, c13_one),
    (DM<u32, String>, true, c13_one), (DS<u64>, true, c13_one), (DM<String, Vec<u8>>, true, c13_one), (Big, false, c13_one), (Vec<Big>, false, c13_one),
    (Pair<String>, false, c13_one), (Pair<Vec<u8>>, false, c13_one), (Pair<Vec<String>>, false, c13_one), (Pair<PathBuf>, false, c13_one), (Pair<VecDeque<u8>>, false, c13_one),
    (Pair<LinkedList<u8>>, false, c13_one), (Pair<Box<str>>, false, c13_one), (Pair<Arc<str>>, false, c13_one), (Pair<Box<[u8]>>, false, c13_one), (Pair<BTreeSet<u8>>, false, c13_one),
    // hash only
    (BinaryHeap<u32>, true, c13_hash), (BinaryHeap<String>, true, c13_hash), (HPair<BinaryHeap<u8>>, true, c13_hash),
    ((BinaryHeap<u8>, u8), true, c13_hash), (OsString, false, c13_hash), (CString, false, c13_hash), (HPair<OsString>, false, c13_hash),
    (HPair<CString>, false, c13_hash), (Vec<OsString>, false, c13_hash), (Cow<'static, String>, false, c13_hash),
    (HPair<PathBuf>, false, c13_hash),
    (SmallVec<[u8; 4]>, false, c13_hash), (HPair<flexstr::SharedStr>, false, c13_hash), (flexstr::SharedStr, false, c13_hash),
    (BitVec<u8, Lsb0>, false, c13_hash), (BitVec<usize, Msb0>, false, c13_hash),
    (Wide, false, c13_one), (Vec<Wide>, false, c13_one), ((Wide, Wide), false, c13_one), (HM<Wide, u8>, true, c13_hash),
);

#[derive(Clone, Debug, Serialize, Deserialize)]
struct C13Scenario {
    seed: u64,
    ty: usize,
}

fn c13_generate(seed: u64) -> C13Scenario {
    let mut r = Rng::new(seed).split(label("c13-workload"));
    C13Scenario { seed, ty: r.usize(c13_count()) }
}

fn c13_run(sc: &C13Scenario) -> (Out, u128) {
    let mut out = Out::default();
    let mut r = Rng::new(sc.seed).split(label("c13-values"));
    let res = c13_run_type(sc.ty, &mut r);
    out.detail = res.ty.clone();
    if !res.equal_ok {
        out.failure = Some(("hash_history_dependent".into(), format!("{}: an equal value built through another construction history hashes differently", res.ty)));
    } else if !res.codec_ok {
        out.failure = Some(("hash_changes_after_codec".into(), format!("{}: the hash changes after an encode / decode round trip", res.ty)));
    } else if res.near_distinct == Some(false) {
        out.failure = Some(("hash_ambiguous".into(), format!("{}: two unequal values feed the same byte stream to the hasher", res.ty)));
    }
    out.nontrivial = res.unordered || res.near_distinct.is_some();
    out.stats.insert("near_miss_pairs".into(), u64::from(res.near_distinct.is_some()));
    out.stats.insert("unordered_collections".into(), u64::from(res.unordered));
    (out, res.real)
}

// ---- driver protocol ---------------------------------------------------------------------

#[derive(Clone, Debug, Serialize, Deserialize)]
struct ReplayFile {
    property: String,
    harness: String,
    seed: u64,
    scenario: serde_json::Value,
    class: String,
    message: String,
    known: Option<String>,
}

fn arg(args: &[String], name: &str) -> Option<String> {
    args.iter().position(|a| a == name).and_then(|i| args.get(i + 1).cloned())
}

fn run_prop(prop: &str, sc: &serde_json::Value) -> Out {
    match prop {
        "C12" => c12_run(&serde_json::from_value(sc.clone()).unwrap()),
        _ => c13_run(&serde_json::from_value(sc.clone()).unwrap()).0,
    }
}

fn batch(args: &[String]) {
    let prop = arg(args, "--prop").expect("--prop");
    let seed: u64 = arg(args, "--seed").and_then(|s| s.parse().ok()).unwrap_or(1);
    let worker: u64 = arg(args, "--worker").and_then(|s| s.parse().ok()).unwrap_or(0);
    let workers: u64 = arg(args, "--workers").and_then(|s| s.parse().ok()).unwrap_or(1);
    let budget: f64 = arg(args, "--budget-s").and_then(|s| s.parse().ok()).unwrap_or(10.0);
    let max_runs: u64 = arg(args, "--max-runs").and_then(|s| s.parse().ok()).unwrap_or(u64::MAX);
    let base = mix(seed, label(&format!("codec_sim/{prop}")));
    let start = Instant::now();
    let stdout = std::io::stdout();
    let mut runs = 0u64;
    let mut shapes: std::collections::HashSet<u64> = std::collections::HashSet::new();
    let mut totals: BTreeMap<String, u64> = BTreeMap::new();
    let mut faults: BTreeMap<String, u64> = BTreeMap::new();
    let mut samples = Vec::new();
    let mut failures = 0u64;
    let mut emitted = 0u64;
    let mut emit_failure = |rf: ReplayFile| {
        // a broken tree can make every run fail: a sample is enough
        emitted += 1;
        if emitted <= 60 {
            writeln!(stdout.lock(), "{}", serde_json::json!({"type": "failure", "i": 0, "replay": rf})).unwrap();
        }
    };
    if worker == 0 && prop == "C12" {
        let (n, bad) = c12_exhaustive16();
        runs += n;
        *totals.entry("exhaustive_16bit_values".into()).or_insert(0) += n;
        if let Some(m) = bad {
            failures += 1;
            emit_failure(ReplayFile { property: prop.clone(), harness: "codec_sim".into(), seed, scenario: serde_json::json!({"exhaustive16": true}), class: "roundtrip_mismatch".into(), message: m, known: None });
        }
    }
    // C13: a second process (fresh ASLR, fresh RandomState) must agree
    let mut child_hashes: HashMap<u64, String> = HashMap::new();
    let cross_n = 300u64;
    if worker == 0 && prop == "C13" {
        let exe = std::env::current_exe().unwrap();
        if let Ok(o) = std::process::Command::new(exe).args(["hashes", "--seed", &seed.to_string(), "--count", &cross_n.to_string(), "--stride", &workers.to_string()]).output() {
            for line in String::from_utf8_lossy(&o.stdout).lines() {
                if let Some((a, b)) = line.split_once(' ') {
                    if let Ok(i) = a.parse::<u64>() {
                        child_hashes.insert(i, b.to_string());
                    }
                }
            }
        }
        *totals.entry("cross_process_values".into()).or_insert(0) += child_hashes.len() as u64;
        *faults.entry("second_process".into()).or_insert(0) += 1;
    }
    let mut i = worker;
    while runs < max_runs && start.elapsed().as_secs_f64() < budget {
        let run_seed = mix(base, i);
        let (scv, out, real) = if prop == "C12" {
            let sc = c12_generate(run_seed);
            let o = c12_run(&sc);
            (serde_json::to_value(&sc).unwrap(), o, 0u128)
        } else {
            let sc = c13_generate(run_seed);
            let (o, real) = c13_run(&sc);
            (serde_json::to_value(&sc).unwrap(), o, real)
        };
        runs += 1;
        if out.nontrivial {
            shapes.insert(simkit::fnv(&serde_json::to_vec(&scv).unwrap()));
        }
        for (k, v) in &out.stats {
            *totals.entry(k.clone()).or_insert(0) += v;
        }
        for (k, v) in &out.faults {
            *faults.entry(k.clone()).or_insert(0) += v;
        }
        if samples.len() < 3 && out.nontrivial {
            samples.push(serde_json::json!({"run_seed": run_seed, "scenario": scv, "types": out.detail}));
        }
        let mut failure = out.failure.clone();
        if prop == "C13" && worker == 0 && i < cross_n * workers {
            if let Some(h) = child_hashes.get(&i) {
                *totals.entry("cross_process_compared".into()).or_insert(0) += 1;
                if *h != format!("{real:032x}") && failure.is_none() {
                    failure = Some(("hash_differs_across_processes".into(), format!("{}: another process computes a different hash for the same value", out.detail)));
                }
            }
        }
        if let Some((class, msg)) = failure {
            failures += 1;
            emit_failure(ReplayFile { property: prop.clone(), harness: "codec_sim".into(), seed: run_seed, scenario: scv, class, message: msg, known: None });
        }
        i += workers;
    }
    writeln!(
        stdout.lock(),
        "{}",
        serde_json::json!({"type": "summary", "prop": prop, "worker": worker, "runs": runs, "failures": failures, "known": 0,
            "nontrivial_shapes": shapes.iter().collect::<Vec<_>>(), "traces": runs, "totals": totals, "probes": {},
            "faults": faults, "samples": samples, "wall_s": start.elapsed().as_secs_f64()})
    )
    .unwrap();
}

fn hashes(args: &[String]) {
    let seed: u64 = arg(args, "--seed").and_then(|s| s.parse().ok()).unwrap_or(1);
    let count: u64 = arg(args, "--count").and_then(|s| s.parse().ok()).unwrap_or(100);
    let workers: u64 = arg(args, "--stride").and_then(|s| s.parse().ok()).unwrap_or(16);
    let base = mix(seed, label("codec_sim/C13"));
    // the indices worker 0 of the batch looks at
    let mut i = 0u64;
    for _ in 0..count {
        let sc = c13_generate(mix(base, i));
        let (_, real) = c13_run(&sc);
        println!("{i} {real:032x}");
        i += workers;
    }
}

fn replay(args: &[String]) -> i32 {
    let rf: ReplayFile = serde_json::from_str(&std::fs::read_to_string(&args[0]).expect("read")).expect("parse");
    let out = run_prop(&rf.property, &rf.scenario);
    let (class, msg) = out.failure.unwrap_or(("none".into(), String::new()));
    let reproduced = class == rf.class;
    println!(
        "{}",
        serde_json::json!({"type": "replay", "file": args[0], "expected_class": rf.class, "class": class, "message": msg, "known": null, "reproduced": reproduced})
    );
    if reproduced { 0 } else { 3 }
}

fn shrink(args: &[String]) -> i32 {
    let rf: ReplayFile = serde_json::from_str(&std::fs::read_to_string(&args[0]).expect("read")).expect("parse");
    let mut best = rf.clone();
    if rf.property == "C12" {
        if let Ok(sc) = serde_json::from_value::<C12Scenario>(rf.scenario.clone()) {
            let mut cur = sc;
            let mut progress = true;
            while progress {
                progress = false;
                for i in (0..cur.types.len()).rev() {
                    if cur.types.len() <= 1 {
                        break;
                    }
                    let mut c = cur.clone();
                    c.types.remove(i);
                    if c12_run(&c).failure.as_ref().is_some_and(|f| f.0 == rf.class) {
                        cur = c;
                        progress = true;
                    }
                }
            }
            let o = c12_run(&cur);
            if let Some((_, m)) = o.failure {
                best.scenario = serde_json::to_value(&cur).unwrap();
                best.message = m;
            }
        }
    }
    std::fs::write(&args[1], serde_json::to_string_pretty(&best).unwrap()).expect("write");
    0
}

fn main() {
    simkit::panics::install();
    let args: Vec<String> = std::env::args().skip(1).collect();
    let code = match args.first().map(String::as_str) {
        Some("batch") => {
            batch(&args[1..]);
            0
        }
        Some("hashes") => {
            hashes(&args[1..]);
            0
        }
        Some("replay") => replay(&args[1..]),
        Some("shrink") => shrink(&args[1..]),
        _ => 2,
    };
    std::process::exit(code);
}
