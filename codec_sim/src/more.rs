//! Second part of the typed value universe: the remaining type constructors
//! the serializer and the stable hash support (unsized smart pointers, paths
//! and OS / C strings, `Cow`, cells, `Wrapping` / `Reverse`, `NonZero*`,
//! atomics, ranges and bounds, `BinaryHeap`, concurrent maps, tuples of arity
//! 1, 4, 5 and 12), derived types whose skipped fields sit before encoded
//! ones, an enum with more than 127 variants, and `Pair<T>`, whose near miss
//! moves the boundary between two adjacent sequences (any sequence type that
//! loses its length prefix collides there).
//!
//! Added after the seeded changes C12-2, C13-1 and C13-2 were missed: all
//! three sat in a type the universe did not contain.

use std::{
    borrow::Cow,
    cell::{Cell, RefCell},
    cmp::Reverse,
    collections::{BTreeSet, BinaryHeap, LinkedList, VecDeque},
    ffi::{CString, OsString},
    marker::PhantomData,
    num::{NonZeroI16, NonZeroI128, NonZeroU8, NonZeroU32, NonZeroU64, NonZeroUsize, Wrapping},
    ops::{Bound, Range, RangeFrom, RangeFull, RangeInclusive, RangeTo, RangeToInclusive},
    os::unix::ffi::{OsStrExt, OsStringExt},
    path::PathBuf,
    rc::Rc,
    sync::{
        Arc,
        atomic::{AtomicBool, AtomicI64, AtomicU8, AtomicU32, Ordering},
    },
    time::Duration,
};

use dashmap::{DashMap, DashSet};
use qbice::{Decode, Encode, StableHash};
use simkit::Rng;

use crate::values::{SeededState, V};

// ---- unsized smart pointers ----------------------------------------------------------

macro_rules! unsized_ptr_v {
    ($($p:ident),*) => {$(
        impl<T: V> V for $p<[T]> {
            fn gen_v(r: &mut Rng, d: u32) -> Self { <Vec<T> as V>::gen_v(r, d).into() }
            fn same(&self, o: &Self) -> bool { self.len() == o.len() && self.iter().zip(o.iter()).all(|(a, b)| a.same(b)) }
            fn near(&self, r: &mut Rng) -> Self { self.iter().map(V::dup).collect::<Vec<T>>().near(r).into() }
            fn dup(&self) -> Self { self.iter().map(V::dup).collect::<Vec<T>>().into() }
            fn name() -> String { format!("{}<[{}]>", stringify!($p), T::name()) }
        }
        impl V for $p<str> {
            fn gen_v(r: &mut Rng, d: u32) -> Self { String::gen_v(r, d).into() }
            fn same(&self, o: &Self) -> bool { **self == **o }
            fn near(&self, r: &mut Rng) -> Self { self.to_string().near(r).into() }
            fn dup(&self) -> Self { self.to_string().into() }
            fn name() -> String { format!("{}<str>", stringify!($p)) }
        }
    )*};
}
unsized_ptr_v!(Box, Rc, Arc);

// ---- paths, OS strings, C strings ----------------------------------------------------------

const PATHS: &[&str] = &["", "a", "ab", "a/b", "/", "/usr/lib/x.rs", "a//b", "a/./b/", "..", "./a", "\u{10ffff}/\u{7f}"];

impl V for PathBuf {
    fn gen_v(r: &mut Rng, _d: u32) -> Self {
        if r.chance(1, 6) { PathBuf::from("p".repeat(r.range(120, 300) as usize)) } else { PathBuf::from(*r.pick(PATHS)) }
    }
    // identity of a path is its spelling (`a//b` and `a/b` compare equal as
    // paths but are different data: they encode and display differently)
    fn same(&self, o: &Self) -> bool { self.as_os_str().as_bytes() == o.as_os_str().as_bytes() }
    fn near(&self, _r: &mut Rng) -> Self {
        let mut b = self.as_os_str().as_bytes().to_vec();
        if b.pop().is_none() {
            b.push(b'a');
        }
        PathBuf::from(OsString::from_vec(b))
    }
    fn dup(&self) -> Self { self.clone() }
    fn name() -> String { "PathBuf".into() }
}

impl V for OsString {
    fn gen_v(r: &mut Rng, _d: u32) -> Self {
        match r.below(6) {
            0 => OsString::new(),
            // not UTF-8
            1 => OsString::from_vec(vec![0xff, 0xfe, b'a']),
            2 => OsString::from_vec(vec![b'x'; r.range(120, 300) as usize]),
            _ => OsString::from(*r.pick(PATHS)),
        }
    }
    fn same(&self, o: &Self) -> bool { self.as_bytes() == o.as_bytes() }
    fn near(&self, _r: &mut Rng) -> Self {
        let mut b = self.as_bytes().to_vec();
        if b.pop().is_none() {
            b.push(b'a');
        }
        OsString::from_vec(b)
    }
    fn dup(&self) -> Self { self.clone() }
    fn name() -> String { "OsString".into() }
}

impl V for CString {
    fn gen_v(r: &mut Rng, _d: u32) -> Self {
        match r.below(4) {
            0 => CString::default(),
            1 => CString::new(vec![0xffu8, 1, 2]).unwrap(),
            2 => CString::new(vec![b'c'; r.range(120, 300) as usize]).unwrap(),
            _ => CString::new(r.pick(PATHS).as_bytes()).unwrap(),
        }
    }
    fn same(&self, o: &Self) -> bool { self == o }
    fn near(&self, _r: &mut Rng) -> Self {
        let mut b = self.as_bytes().to_vec();
        if b.pop().is_none() {
            b.push(b'a');
        }
        CString::new(b).unwrap()
    }
    fn dup(&self) -> Self { self.clone() }
    fn name() -> String { "CString".into() }
}

// ---- Cow -----------------------------------------------------------------------------------

const STRS: &[&str] = &["", "a", "ab", "\u{10ffff}\0", "a string that is longer than one hundred and twenty-seven bytes, so that its length prefix needs a second varint byte in the postcard format"];
const BYTES: &[&[u8]] = &[&[], &[0], &[0xff, 0xff], &[1, 2, 3, 4, 5, 6, 7, 8, 9]];

impl V for Cow<'static, str> {
    fn gen_v(r: &mut Rng, _d: u32) -> Self {
        let s = *r.pick(STRS);
        if r.chance(1, 2) { Cow::Borrowed(s) } else { Cow::Owned(s.to_string()) }
    }
    fn same(&self, o: &Self) -> bool { **self == **o }
    fn near(&self, r: &mut Rng) -> Self { Cow::Owned(self.to_string().near(r)) }
    fn dup(&self) -> Self { Cow::Owned(self.to_string()) }
    fn name() -> String { "Cow<str>".into() }
}
impl V for Cow<'static, [u8]> {
    fn gen_v(r: &mut Rng, _d: u32) -> Self {
        let s = *r.pick(BYTES);
        if r.chance(1, 2) { Cow::Borrowed(s) } else { Cow::Owned(s.to_vec()) }
    }
    fn same(&self, o: &Self) -> bool { **self == **o }
    fn near(&self, r: &mut Rng) -> Self { Cow::Owned(self.to_vec().near(r)) }
    fn dup(&self) -> Self { Cow::Owned(self.to_vec()) }
    fn name() -> String { "Cow<[u8]>".into() }
}
/// the only `Cow` shape the stable hash supports (`T: Clone`)
impl V for Cow<'static, String> {
    fn gen_v(r: &mut Rng, d: u32) -> Self { Cow::Owned(String::gen_v(r, d)) }
    fn same(&self, o: &Self) -> bool { **self == **o }
    fn near(&self, r: &mut Rng) -> Self { Cow::Owned((**self).near(r)) }
    fn dup(&self) -> Self { Cow::Owned((**self).clone()) }
    fn name() -> String { "Cow<String>".into() }
}

// ---- wrappers --------------------------------------------------------------------------------

impl<T: 'static> V for PhantomData<T> {
    fn gen_v(_r: &mut Rng, _d: u32) -> Self { PhantomData }
    fn same(&self, _o: &Self) -> bool { true }
    fn near(&self, _r: &mut Rng) -> Self { PhantomData }
    fn dup(&self) -> Self { PhantomData }
    fn name() -> String { "PhantomData".into() }
}
impl V for Duration {
    fn gen_v(r: &mut Rng, _d: u32) -> Self {
        match r.below(5) {
            0 => Duration::ZERO,
            1 => Duration::MAX,
            2 => Duration::new(u64::gen_v(r, 0), 999_999_999),
            3 => Duration::from_nanos(r.below(3)),
            _ => Duration::new(r.below(1 << 40), r.below(1_000_000_000) as u32),
        }
    }
    fn same(&self, o: &Self) -> bool { self == o }
    fn near(&self, _r: &mut Rng) -> Self {
        // one nanosecond away, across the field boundary where possible
        self.checked_add(Duration::from_nanos(1)).unwrap_or(Duration::new(self.as_secs(), 0))
    }
    fn dup(&self) -> Self { *self }
    fn name() -> String { "Duration".into() }
}
impl<T: V + Copy> V for Cell<T> {
    fn gen_v(r: &mut Rng, d: u32) -> Self { Cell::new(T::gen_v(r, d)) }
    fn same(&self, o: &Self) -> bool { self.get().same(&o.get()) }
    fn near(&self, r: &mut Rng) -> Self { Cell::new(self.get().near(r)) }
    fn dup(&self) -> Self { Cell::new(self.get()) }
    fn name() -> String { format!("Cell<{}>", T::name()) }
}
impl<T: V> V for RefCell<T> {
    fn gen_v(r: &mut Rng, d: u32) -> Self { RefCell::new(T::gen_v(r, d)) }
    fn same(&self, o: &Self) -> bool { self.borrow().same(&o.borrow()) }
    fn near(&self, r: &mut Rng) -> Self { RefCell::new(self.borrow().near(r)) }
    fn dup(&self) -> Self { RefCell::new(self.borrow().dup()) }
    fn name() -> String { format!("RefCell<{}>", T::name()) }
}
impl<T: V> V for Wrapping<T> {
    fn gen_v(r: &mut Rng, d: u32) -> Self { Wrapping(T::gen_v(r, d)) }
    fn same(&self, o: &Self) -> bool { self.0.same(&o.0) }
    fn near(&self, r: &mut Rng) -> Self { Wrapping(self.0.near(r)) }
    fn dup(&self) -> Self { Wrapping(self.0.dup()) }
    fn name() -> String { format!("Wrapping<{}>", T::name()) }
}
impl<T: V> V for Reverse<T> {
    fn gen_v(r: &mut Rng, d: u32) -> Self { Reverse(T::gen_v(r, d)) }
    fn same(&self, o: &Self) -> bool { self.0.same(&o.0) }
    fn near(&self, r: &mut Rng) -> Self { Reverse(self.0.near(r)) }
    fn dup(&self) -> Self { Reverse(self.0.dup()) }
    fn name() -> String { format!("Reverse<{}>", T::name()) }
}

macro_rules! nonzero_v {
    ($(($nz:ident, $t:ty)),*) => {$(
        impl V for $nz {
            fn gen_v(r: &mut Rng, d: u32) -> Self { $nz::new(<$t as V>::gen_v(r, d)).unwrap_or($nz::MIN) }
            fn same(&self, o: &Self) -> bool { self == o }
            fn near(&self, _r: &mut Rng) -> Self { $nz::new(self.get().wrapping_add(1)).unwrap_or($nz::MAX) }
            fn dup(&self) -> Self { *self }
            fn name() -> String { stringify!($nz).into() }
        }
    )*};
}
nonzero_v!((NonZeroU8, u8), (NonZeroU32, u32), (NonZeroU64, u64), (NonZeroI16, i16), (NonZeroI128, i128), (NonZeroUsize, usize));

macro_rules! atomic_v {
    ($(($a:ident, $t:ty)),*) => {$(
        impl V for $a {
            fn gen_v(r: &mut Rng, d: u32) -> Self { $a::new(<$t as V>::gen_v(r, d)) }
            fn same(&self, o: &Self) -> bool { self.load(Ordering::SeqCst) == o.load(Ordering::SeqCst) }
            fn near(&self, r: &mut Rng) -> Self { $a::new(self.load(Ordering::SeqCst).near(r)) }
            fn dup(&self) -> Self { $a::new(self.load(Ordering::SeqCst)) }
            fn name() -> String { stringify!($a).into() }
        }
    )*};
}
atomic_v!((AtomicBool, bool), (AtomicU8, u8), (AtomicU32, u32), (AtomicI64, i64));

// ---- ranges ------------------------------------------------------------------------------------

impl<T: V> V for Range<T> {
    fn gen_v(r: &mut Rng, d: u32) -> Self { T::gen_v(r, d)..T::gen_v(r, d) }
    fn same(&self, o: &Self) -> bool { self.start.same(&o.start) && self.end.same(&o.end) }
    fn near(&self, r: &mut Rng) -> Self {
        if r.chance(1, 2) { self.start.near(r)..self.end.dup() } else { self.start.dup()..self.end.near(r) }
    }
    fn dup(&self) -> Self { self.start.dup()..self.end.dup() }
    fn name() -> String { format!("Range<{}>", T::name()) }
}
impl<T: V> V for RangeInclusive<T> {
    fn gen_v(r: &mut Rng, d: u32) -> Self { T::gen_v(r, d)..=T::gen_v(r, d) }
    fn same(&self, o: &Self) -> bool { self.start().same(o.start()) && self.end().same(o.end()) }
    fn near(&self, r: &mut Rng) -> Self {
        if r.chance(1, 2) { self.start().near(r)..=self.end().dup() } else { self.start().dup()..=self.end().near(r) }
    }
    fn dup(&self) -> Self { self.start().dup()..=self.end().dup() }
    fn name() -> String { format!("RangeInclusive<{}>", T::name()) }
}
impl<T: V> V for RangeFrom<T> {
    fn gen_v(r: &mut Rng, d: u32) -> Self { T::gen_v(r, d).. }
    fn same(&self, o: &Self) -> bool { self.start.same(&o.start) }
    fn near(&self, r: &mut Rng) -> Self { self.start.near(r).. }
    fn dup(&self) -> Self { self.start.dup().. }
    fn name() -> String { format!("RangeFrom<{}>", T::name()) }
}
impl<T: V> V for RangeTo<T> {
    fn gen_v(r: &mut Rng, d: u32) -> Self { ..T::gen_v(r, d) }
    fn same(&self, o: &Self) -> bool { self.end.same(&o.end) }
    fn near(&self, r: &mut Rng) -> Self { ..self.end.near(r) }
    fn dup(&self) -> Self { ..self.end.dup() }
    fn name() -> String { format!("RangeTo<{}>", T::name()) }
}
impl<T: V> V for RangeToInclusive<T> {
    fn gen_v(r: &mut Rng, d: u32) -> Self { ..=T::gen_v(r, d) }
    fn same(&self, o: &Self) -> bool { self.end.same(&o.end) }
    fn near(&self, r: &mut Rng) -> Self { ..=self.end.near(r) }
    fn dup(&self) -> Self { ..=self.end.dup() }
    fn name() -> String { format!("RangeToInclusive<{}>", T::name()) }
}
impl V for RangeFull {
    fn gen_v(_r: &mut Rng, _d: u32) -> Self { .. }
    fn same(&self, _o: &Self) -> bool { true }
    fn near(&self, _r: &mut Rng) -> Self { .. }
    fn dup(&self) -> Self { .. }
    fn name() -> String { "RangeFull".into() }
}
impl<T: V> V for Bound<T> {
    fn gen_v(r: &mut Rng, d: u32) -> Self {
        match r.below(3) {
            0 => Bound::Unbounded,
            1 => Bound::Included(T::gen_v(r, d)),
            _ => Bound::Excluded(T::gen_v(r, d)),
        }
    }
    fn same(&self, o: &Self) -> bool {
        match (self, o) {
            (Bound::Unbounded, Bound::Unbounded) => true,
            (Bound::Included(a), Bound::Included(b)) | (Bound::Excluded(a), Bound::Excluded(b)) => a.same(b),
            _ => false,
        }
    }
    fn near(&self, r: &mut Rng) -> Self {
        // the neighbouring variant with the same payload
        match self {
            Bound::Unbounded => Bound::Included(T::gen_v(r, 0)),
            Bound::Included(a) => Bound::Excluded(a.dup()),
            Bound::Excluded(a) => Bound::Included(a.dup()),
        }
    }
    fn dup(&self) -> Self {
        match self {
            Bound::Unbounded => Bound::Unbounded,
            Bound::Included(a) => Bound::Included(a.dup()),
            Bound::Excluded(a) => Bound::Excluded(a.dup()),
        }
    }
    fn name() -> String { format!("Bound<{}>", T::name()) }
}

// ---- BinaryHeap, concurrent maps -----------------------------------------------------------------

impl<T: V + Ord> V for BinaryHeap<T> {
    fn gen_v(r: &mut Rng, d: u32) -> Self {
        // at least three elements most of the time: the internal layout of a
        // heap depends on the insertion order from three elements upward
        let n = if r.chance(3, 4) { r.range(3, 9) } else { r.below(3) };
        (0..n).map(|_| T::gen_v(r, d.saturating_sub(1))).collect()
    }
    fn same(&self, o: &Self) -> bool {
        let mut a: Vec<&T> = self.iter().collect();
        let mut b: Vec<&T> = o.iter().collect();
        a.sort();
        b.sort();
        a.len() == b.len() && a.iter().zip(b.iter()).all(|(x, y)| x.same(y))
    }
    fn near(&self, r: &mut Rng) -> Self {
        let mut h: BinaryHeap<T> = self.iter().map(V::dup).collect();
        if h.pop().is_none() || r.chance(1, 3) {
            h.push(T::gen_v(r, 0));
            h.push(T::gen_v(r, 0));
        }
        h
    }
    fn dup(&self) -> Self { self.iter().map(V::dup).collect() }
    fn name() -> String { format!("BinaryHeap<{}>", T::name()) }
}

impl<K: V + Eq + std::hash::Hash, W: V> V for DashMap<K, W, SeededState> {
    fn gen_v(r: &mut Rng, d: u32) -> Self {
        let m = DashMap::with_hasher(SeededState(r.next_u64()));
        for _ in 0..crate::values::len(r, d) {
            m.insert(K::gen_v(r, d.saturating_sub(1)), W::gen_v(r, d.saturating_sub(1)));
        }
        m
    }
    fn same(&self, o: &Self) -> bool { self.len() == o.len() && self.iter().all(|e| o.get(e.key()).is_some_and(|w| e.value().same(&*w))) }
    fn near(&self, r: &mut Rng) -> Self {
        let m = self.dup();
        let all: Vec<(K, W)> = self.iter().map(|e| (e.key().dup(), e.value().dup())).collect();
        if all.len() >= 2 && r.chance(1, 2) {
            if let Some(j) = (1..all.len()).find(|j| !all[*j].1.same(&all[0].1)) {
                m.insert(all[0].0.dup(), all[j].1.dup());
                m.insert(all[j].0.dup(), all[0].1.dup());
                return m;
            }
        }
        let first = self.iter().next().map(|e| (e.key().dup(), e.value().dup()));
        match first {
            Some((k, v)) => {
                if r.chance(1, 2) {
                    m.insert(k, v.near(r));
                } else {
                    m.remove(&k);
                }
            }
            None => {
                m.insert(K::gen_v(r, 0), W::gen_v(r, 0));
            }
        }
        m
    }
    fn dup(&self) -> Self {
        let m = DashMap::with_hasher(self.hasher().clone());
        for e in self {
            m.insert(e.key().dup(), e.value().dup());
        }
        m
    }
    fn name() -> String { format!("DashMap<{},{}>", K::name(), W::name()) }
}
impl<K: V + Eq + std::hash::Hash> V for DashSet<K, SeededState> {
    fn gen_v(r: &mut Rng, d: u32) -> Self {
        let m = DashSet::with_hasher(SeededState(r.next_u64()));
        for _ in 0..crate::values::len(r, d) {
            m.insert(K::gen_v(r, d.saturating_sub(1)));
        }
        m
    }
    fn same(&self, o: &Self) -> bool { self.len() == o.len() && self.iter().all(|k| o.contains(k.key())) }
    fn near(&self, r: &mut Rng) -> Self {
        let m = self.dup();
        let first = self.iter().next().map(|k| k.key().dup());
        match first {
            Some(k) => {
                m.remove(&k);
            }
            None => {
                m.insert(K::gen_v(r, 0));
            }
        }
        m
    }
    fn dup(&self) -> Self {
        let m = DashSet::with_hasher(SeededState(self.len() as u64));
        for k in self.iter() {
            m.insert(k.key().dup());
        }
        m
    }
    fn name() -> String { format!("DashSet<{}>", K::name()) }
}

// ---- tuples of further arities ---------------------------------------------------------------------

macro_rules! tuple_v {
    ($(($($t:ident $i:tt),+))*) => {$(
        impl<$($t: V),+> V for ($($t,)+) {
            fn gen_v(r: &mut Rng, d: u32) -> Self { ($($t::gen_v(r, d.saturating_sub(1)),)+) }
            fn same(&self, o: &Self) -> bool { $(self.$i.same(&o.$i))&&+ }
            fn near(&self, r: &mut Rng) -> Self {
                let n = [$($i),+].len();
                let pick = r.usize(n);
                ($(if pick == $i { self.$i.near(r) } else { self.$i.dup() },)+)
            }
            fn dup(&self) -> Self { ($(self.$i.dup(),)+) }
            fn name() -> String { format!("({})", [$($t::name()),+].join(",")) }
        }
    )*};
}
tuple_v!(
    (A 0)
    (A 0, B 1, C 2, D 3)
    (A 0, B 1, C 2, D 3, E 4)
    (A 0, B 1, C 2, D 3, E 4, F 5, G 6, H 7, I 8, J 9, K 10, L 11)
);

// ---- adjacent sequences: the boundary moves -------------------------------------------------------------

/// Sequence-like types: split off the last unit, concatenate.
pub trait Cat: V {
    fn split_last(&self) -> Option<(Self, Self)>;
    fn cat(&self, o: &Self) -> Self;
}
impl Cat for String {
    fn split_last(&self) -> Option<(Self, Self)> {
        let c = self.chars().last()?;
        Some((self[..self.len() - c.len_utf8()].to_string(), c.to_string()))
    }
    fn cat(&self, o: &Self) -> Self { format!("{self}{o}") }
}
macro_rules! cat_seq {
    ($($c:ident),*) => {$(
        impl<T: V> Cat for $c<T> {
            fn split_last(&self) -> Option<(Self, Self)> {
                let n = self.len();
                if n == 0 {
                    return None;
                }
                Some((self.iter().take(n - 1).map(V::dup).collect(), self.iter().skip(n - 1).map(V::dup).collect()))
            }
            fn cat(&self, o: &Self) -> Self { self.iter().chain(o.iter()).map(V::dup).collect() }
        }
    )*};
}
cat_seq!(Vec, VecDeque, LinkedList);
macro_rules! cat_bytes {
    ($(($t:ty, $to:expr, $from:expr)),*) => {$(
        impl Cat for $t {
            fn split_last(&self) -> Option<(Self, Self)> {
                let b: Vec<u8> = ($to)(self);
                let (last, rest) = b.as_slice().split_last()?;
                Some((($from)(rest.to_vec()), ($from)(vec![*last])))
            }
            fn cat(&self, o: &Self) -> Self {
                let mut b: Vec<u8> = ($to)(self);
                b.extend(($to)(o));
                ($from)(b)
            }
        }
    )*};
}
cat_bytes!(
    (PathBuf, |p: &PathBuf| p.as_os_str().as_bytes().to_vec(), |b: Vec<u8>| PathBuf::from(OsString::from_vec(b))),
    (OsString, |p: &OsString| p.as_bytes().to_vec(), |b: Vec<u8>| OsString::from_vec(b)),
    (CString, |p: &CString| p.as_bytes().to_vec(), |b: Vec<u8>| CString::new(b).unwrap()),
    (Box<[u8]>, |p: &Box<[u8]>| p.to_vec(), |b: Vec<u8>| b.into_boxed_slice()),
    (Arc<[u8]>, |p: &Arc<[u8]>| p.to_vec(), |b: Vec<u8>| Arc::<[u8]>::from(b))
);
impl Cat for Box<str> {
    fn split_last(&self) -> Option<(Self, Self)> { self.to_string().split_last().map(|(a, b)| (a.into(), b.into())) }
    fn cat(&self, o: &Self) -> Self { format!("{self}{o}").into() }
}
impl Cat for Arc<str> {
    fn split_last(&self) -> Option<(Self, Self)> { self.to_string().split_last().map(|(a, b)| (a.into(), b.into())) }
    fn cat(&self, o: &Self) -> Self { format!("{self}{o}").into() }
}
impl<T: V + Ord> Cat for BinaryHeap<T> {
    fn split_last(&self) -> Option<(Self, Self)> {
        let mut h: BinaryHeap<T> = self.dup();
        let top = h.pop()?;
        Some((h, std::iter::once(top).collect()))
    }
    fn cat(&self, o: &Self) -> Self { self.iter().chain(o.iter()).map(V::dup).collect() }
}
impl<T: V + Ord> Cat for BTreeSet<T> {
    fn split_last(&self) -> Option<(Self, Self)> {
        let last = self.iter().next_back()?;
        Some((self.iter().filter(|x| !x.same(last)).map(V::dup).collect(), std::iter::once(last.dup()).collect()))
    }
    fn cat(&self, o: &Self) -> Self { self.iter().chain(o.iter()).map(V::dup).collect() }
}

/// Two adjacent sequences in one derived struct.
#[derive(Debug, Clone, Encode, Decode, StableHash)]
pub struct Pair<T>(pub T, pub T);

/// `Pair` for types the serializer does not support.
#[derive(Debug, Clone, StableHash)]
pub struct HPair<T>(pub T, pub T);

fn shift<T: Cat>(a: &T, b: &T, r: &mut Rng) -> (T, T) {
    // move the last unit of the first sequence to the front of the second
    // (or the other way round); fall back to an ordinary near miss
    if let Some((rest, last)) = a.split_last() {
        let nb = last.cat(b);
        if !(rest.same(a) && nb.same(b)) {
            return (rest, nb);
        }
    }
    (a.near(r), b.dup())
}

impl<T: Cat> V for Pair<T> {
    fn gen_v(r: &mut Rng, d: u32) -> Self { Pair(T::gen_v(r, d), T::gen_v(r, d)) }
    fn same(&self, o: &Self) -> bool { self.0.same(&o.0) && self.1.same(&o.1) }
    fn near(&self, r: &mut Rng) -> Self {
        let (a, b) = shift(&self.0, &self.1, r);
        Pair(a, b)
    }
    fn dup(&self) -> Self { Pair(self.0.dup(), self.1.dup()) }
    fn name() -> String { format!("Pair<{}>", T::name()) }
}
impl<T: Cat> V for HPair<T> {
    fn gen_v(r: &mut Rng, d: u32) -> Self { HPair(T::gen_v(r, d), T::gen_v(r, d)) }
    fn same(&self, o: &Self) -> bool { self.0.same(&o.0) && self.1.same(&o.1) }
    fn near(&self, r: &mut Rng) -> Self {
        let (a, b) = shift(&self.0, &self.1, r);
        HPair(a, b)
    }
    fn dup(&self) -> Self { HPair(self.0.dup(), self.1.dup()) }
    fn name() -> String { format!("HPair<{}>", T::name()) }
}

// ---- derived types: skipped fields before encoded ones, many variants -------------------------------------

#[derive(Debug, Clone, PartialEq, Eq, Encode, Decode)]
pub struct TupSkipMid(pub u32, #[serialize(skip)] pub u32, pub u32);

#[derive(Debug, Clone, PartialEq, Eq, Encode, Decode)]
pub struct TupSkipMixed(pub String, #[serialize(skip)] pub u8, pub Vec<u8>, #[serialize(skip)] pub String, pub u64);

#[derive(Debug, Clone, PartialEq, Eq, Encode, Decode)]
pub struct GenTupSkip<T>(#[serialize(skip)] pub u8, pub T, pub T);

#[derive(Debug, Clone, PartialEq, Eq, Encode, Decode)]
pub struct NamedSkipEnds {
    #[serialize(skip)]
    pub first: u16,
    pub a: String,
    pub b: u8,
    #[serialize(skip)]
    pub last: Vec<u8>,
}

#[derive(Debug, Clone, PartialEq, Eq, Encode, Decode)]
pub enum EnSkip {
    A(u8, #[serialize(skip)] u16, String),
    B {
        x: u8,
        #[serialize(skip)]
        y: String,
        z: Vec<u8>,
    },
    C,
    D(#[serialize(skip)] u64, u64),
}

impl V for TupSkipMid {
    fn gen_v(r: &mut Rng, d: u32) -> Self { TupSkipMid(u32::gen_v(r, d), 0, u32::gen_v(r, d)) }
    fn same(&self, o: &Self) -> bool { self.0 == o.0 && self.2 == o.2 }
    fn near(&self, r: &mut Rng) -> Self { if r.chance(1, 2) { TupSkipMid(self.0.wrapping_add(1), 0, self.2) } else { TupSkipMid(self.0, 0, self.2.wrapping_add(1)) } }
    fn dup(&self) -> Self { self.clone() }
    fn name() -> String { "TupSkipMid".into() }
}
impl V for TupSkipMixed {
    fn gen_v(r: &mut Rng, d: u32) -> Self { TupSkipMixed(String::gen_v(r, d), 0, Vec::gen_v(r, 1), String::new(), u64::gen_v(r, d)) }
    fn same(&self, o: &Self) -> bool { self.0 == o.0 && self.2 == o.2 && self.4 == o.4 }
    fn near(&self, _r: &mut Rng) -> Self { TupSkipMixed(self.0.clone(), 0, self.2.clone(), String::new(), self.4.wrapping_add(1)) }
    fn dup(&self) -> Self { self.clone() }
    fn name() -> String { "TupSkipMixed".into() }
}
impl<T: V + Clone> V for GenTupSkip<T> {
    fn gen_v(r: &mut Rng, d: u32) -> Self { GenTupSkip(0, T::gen_v(r, d), T::gen_v(r, d)) }
    fn same(&self, o: &Self) -> bool { self.1.same(&o.1) && self.2.same(&o.2) }
    fn near(&self, r: &mut Rng) -> Self { GenTupSkip(0, self.1.dup(), self.2.near(r)) }
    fn dup(&self) -> Self { GenTupSkip(0, self.1.dup(), self.2.dup()) }
    fn name() -> String { format!("GenTupSkip<{}>", T::name()) }
}
impl V for NamedSkipEnds {
    fn gen_v(r: &mut Rng, d: u32) -> Self { NamedSkipEnds { first: 0, a: String::gen_v(r, d), b: u8::gen_v(r, d), last: vec![] } }
    fn same(&self, o: &Self) -> bool { self.a == o.a && self.b == o.b }
    fn near(&self, _r: &mut Rng) -> Self { NamedSkipEnds { first: 0, a: self.a.clone(), b: self.b.wrapping_add(1), last: vec![] } }
    fn dup(&self) -> Self { self.clone() }
    fn name() -> String { "NamedSkipEnds".into() }
}
impl V for EnSkip {
    fn gen_v(r: &mut Rng, d: u32) -> Self {
        match r.below(4) {
            0 => EnSkip::A(u8::gen_v(r, d), 0, String::gen_v(r, d)),
            1 => EnSkip::B { x: u8::gen_v(r, d), y: String::new(), z: Vec::gen_v(r, 1) },
            2 => EnSkip::C,
            _ => EnSkip::D(0, u64::gen_v(r, d)),
        }
    }
    fn same(&self, o: &Self) -> bool {
        match (self, o) {
            (EnSkip::A(a, _, b), EnSkip::A(c, _, e)) => a == c && b == e,
            (EnSkip::B { x, z, .. }, EnSkip::B { x: x2, z: z2, .. }) => x == x2 && z == z2,
            (EnSkip::C, EnSkip::C) => true,
            (EnSkip::D(_, a), EnSkip::D(_, b)) => a == b,
            _ => false,
        }
    }
    fn near(&self, _r: &mut Rng) -> Self {
        match self {
            EnSkip::A(a, _, b) => EnSkip::A(a.wrapping_add(1), 0, b.clone()),
            EnSkip::B { x, z, .. } => EnSkip::B { x: x.wrapping_add(1), y: String::new(), z: z.clone() },
            EnSkip::C => EnSkip::D(0, 0),
            EnSkip::D(_, a) => EnSkip::D(0, a.wrapping_add(1)),
        }
    }
    fn dup(&self) -> Self { self.clone() }
    fn name() -> String { "EnSkip".into() }
}

include!("big_enum.rs");
include!("wide_enum.rs");

// ---- feature-gated collections ----------------------------------------------------------------------

use bitvec::{order::BitOrder, store::BitStore, vec::BitVec};
use smallvec::{Array, SmallVec};

impl<A: Array + 'static> V for SmallVec<A>
where
    A::Item: V,
{
    fn gen_v(r: &mut Rng, d: u32) -> Self {
        // below, at and above the inline capacity
        let n = match r.below(4) {
            0 => 0,
            1 => A::size(),
            2 => A::size() + 1,
            _ => crate::values::len(r, d),
        };
        (0..n).map(|_| <A::Item as V>::gen_v(r, d.saturating_sub(1))).collect()
    }
    fn same(&self, o: &Self) -> bool { self.len() == o.len() && self.iter().zip(o.iter()).all(|(a, b)| a.same(b)) }
    fn near(&self, r: &mut Rng) -> Self { self.iter().map(V::dup).collect::<Vec<A::Item>>().near(r).into_iter().collect() }
    fn dup(&self) -> Self { self.iter().map(V::dup).collect() }
    fn name() -> String { format!("SmallVec<[{};{}]>", <A::Item as V>::name(), A::size()) }
}

impl<T: BitStore + 'static, O: BitOrder + 'static> V for BitVec<T, O> {
    fn gen_v(r: &mut Rng, _d: u32) -> Self {
        let n = match r.below(8) {
            0 => 0,
            1 => 1,
            2 => 7,
            3 => 8,
            4 => 9,
            5 => 64,
            6 => 65,
            _ => r.below(300) as usize,
        };
        let mut b = BitVec::new();
        for _ in 0..n {
            b.push(r.chance(1, 2));
        }
        b
    }
    fn same(&self, o: &Self) -> bool { self.len() == o.len() && self.iter().by_vals().zip(o.iter().by_vals()).all(|(a, b)| a == b) }
    fn near(&self, _r: &mut Rng) -> Self {
        let mut b = self.clone();
        if b.pop().is_none() {
            b.push(false);
        }
        b
    }
    fn dup(&self) -> Self { self.clone() }
    fn name() -> String { format!("BitVec<{},{}>", std::any::type_name::<T>(), std::any::type_name::<O>().rsplit("::").next().unwrap_or("")) }
}

impl V for flexstr::SharedStr {
    fn gen_v(r: &mut Rng, d: u32) -> Self { flexstr::SharedStr::from(String::gen_v(r, d).as_str()) }
    fn same(&self, o: &Self) -> bool { self.as_str() == o.as_str() }
    fn near(&self, r: &mut Rng) -> Self { flexstr::SharedStr::from(self.as_str().to_string().near(r).as_str()) }
    fn dup(&self) -> Self { self.clone() }
    fn name() -> String { "flexstr::SharedStr".into() }
}
impl Cat for flexstr::SharedStr {
    fn split_last(&self) -> Option<(Self, Self)> {
        self.as_str().to_string().split_last().map(|(a, b)| (flexstr::SharedStr::from(a.as_str()), flexstr::SharedStr::from(b.as_str())))
    }
    fn cat(&self, o: &Self) -> Self { flexstr::SharedStr::from(format!("{}{}", self.as_str(), o.as_str()).as_str()) }
}
