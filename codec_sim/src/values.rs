//! The typed value universe shared by the C12 and C13 harnesses.

use std::{
    collections::{BTreeMap, BTreeSet, HashMap, HashSet, LinkedList, VecDeque},
    rc::Rc,
    sync::Arc,
};

use qbice::{Decode, Encode, Identifiable, StableHash};
use simkit::Rng;

/// deterministic hasher state for unordered collections: iteration order is a
/// controlled variable of the run, not `RandomState` luck
#[derive(Clone, Default, Debug)]
pub struct SeededState(pub u64);

impl std::hash::BuildHasher for SeededState {
    type Hasher = SeededHasher;
    fn build_hasher(&self) -> SeededHasher { SeededHasher(self.0 ^ 0x9E37_79B9_7F4A_7C15) }
}

pub struct SeededHasher(u64);

impl std::hash::Hasher for SeededHasher {
    fn finish(&self) -> u64 { self.0 }
    fn write(&mut self, bytes: &[u8]) {
        for b in bytes {
            self.0 = (self.0 ^ u64::from(*b)).wrapping_mul(0x0000_0100_0000_01B3).rotate_left(5);
        }
    }
}

/// A type of the universe: generated from the seeded stream, compared
/// exactly (floats bit-wise), and able to produce a "near miss".
pub trait V: Sized + 'static {
    fn gen_v(r: &mut Rng, d: u32) -> Self;
    fn same(&self, o: &Self) -> bool;
    /// an unequal value that is as close as possible (moved boundary,
    /// neighbouring variant, one more / one fewer element)
    fn near(&self, r: &mut Rng) -> Self;
    /// structural copy (not every type of the universe is `Clone`)
    fn dup(&self) -> Self;
    fn name() -> String;
}

fn boundary_u64(r: &mut Rng) -> u64 {
    // every 7-bit varint boundary +-1, plus extremes
    let k = r.range(1, 9);
    let b = 1u64.checked_shl((7 * k) as u32).unwrap_or(0);
    match r.below(8) {
        0 => 0,
        1 => u64::MAX,
        2 => b.wrapping_sub(1),
        3 => b,
        4 => b.wrapping_add(1),
        5 => r.below(300),
        _ => r.next_u64(),
    }
}

macro_rules! int_v {
    ($($t:ty),*) => {$(
        impl V for $t {
            fn gen_v(r: &mut Rng, _d: u32) -> Self { boundary_u64(r) as $t }
            fn same(&self, o: &Self) -> bool { self == o }
            fn near(&self, _r: &mut Rng) -> Self { self.wrapping_add(1) }
            fn dup(&self) -> Self { *self }
            fn name() -> String { stringify!($t).to_string() }
        }
    )*};
}
int_v!(u8, u16, u32, u64, usize, i8, i16, i32, i64, isize);

impl V for u128 {
    fn gen_v(r: &mut Rng, _d: u32) -> Self {
        match r.below(4) {
            0 => u128::MAX,
            1 => u128::from(boundary_u64(r)) << 64,
            2 => (1u128 << (7 * r.range(9, 18))) - r.below(2) as u128,
            _ => u128::from(boundary_u64(r)),
        }
    }
    fn same(&self, o: &Self) -> bool { self == o }
    fn near(&self, _r: &mut Rng) -> Self { self.wrapping_add(1) }
    fn dup(&self) -> Self { *self }
    fn name() -> String { "u128".into() }
}
impl V for i128 {
    fn gen_v(r: &mut Rng, d: u32) -> Self { u128::gen_v(r, d) as i128 }
    fn same(&self, o: &Self) -> bool { self == o }
    fn near(&self, _r: &mut Rng) -> Self { self.wrapping_sub(1) }
    fn dup(&self) -> Self { *self }
    fn name() -> String { "i128".into() }
}
impl V for bool {
    fn gen_v(r: &mut Rng, _d: u32) -> Self { r.chance(1, 2) }
    fn same(&self, o: &Self) -> bool { self == o }
    fn near(&self, _r: &mut Rng) -> Self { !*self }
    fn dup(&self) -> Self { *self }
    fn name() -> String { "bool".into() }
}
impl V for char {
    fn gen_v(r: &mut Rng, _d: u32) -> Self {
        *r.pick(&['a', '\0', '\u{7f}', '\u{80}', '\u{7ff}', '\u{800}', '\u{ffff}', '\u{10000}', '\u{10ffff}', 'z'])
    }
    fn same(&self, o: &Self) -> bool { self == o }
    fn near(&self, _r: &mut Rng) -> Self { if *self == 'a' { 'b' } else { 'a' } }
    fn dup(&self) -> Self { *self }
    fn name() -> String { "char".into() }
}
thread_local! {
    /// C13 only: every NaN is one value (the stable hash normalises NaNs);
    /// C12 compares floats bit by bit
    pub static NAN_IS_ONE_VALUE: std::cell::Cell<bool> = const { std::cell::Cell::new(false) };
}
/// quiet, negative quiet, quiet with payload, signalling, negative signalling
pub const NANS32: [u32; 5] = [0x7fc0_0000, 0xffc0_0000, 0x7fc0_1234, 0x7fa0_0000, 0xff80_0001];
pub const NANS64: [u64; 5] = [
    0x7ff8_0000_0000_0000,
    0xfff8_0000_0000_0000,
    0x7ff8_0000_0000_1234,
    0x7ff0_0000_0000_0001,
    0xfff4_0000_0000_0000,
];
impl V for f32 {
    fn gen_v(r: &mut Rng, _d: u32) -> Self {
        if r.chance(1, 4) {
            return f32::from_bits(*r.pick(&NANS32));
        }
        *r.pick(&[0.0, -0.0, 1.5, f32::MAX, f32::MIN_POSITIVE, f32::INFINITY, f32::NEG_INFINITY, f32::NAN, 1e-40])
    }
    fn same(&self, o: &Self) -> bool {
        self.to_bits() == o.to_bits() || (NAN_IS_ONE_VALUE.with(std::cell::Cell::get) && self.is_nan() && o.is_nan())
    }
    fn near(&self, _r: &mut Rng) -> Self { if self.to_bits() == 3.25f32.to_bits() { 3.5 } else { 3.25 } }
    fn dup(&self) -> Self { *self }
    fn name() -> String { "f32".into() }
}
impl V for f64 {
    fn gen_v(r: &mut Rng, _d: u32) -> Self {
        if r.chance(1, 4) {
            return f64::from_bits(*r.pick(&NANS64));
        }
        *r.pick(&[0.0, -0.0, 1.5, f64::MAX, f64::MIN_POSITIVE, f64::INFINITY, f64::NEG_INFINITY, f64::NAN, 5e-324])
    }
    fn same(&self, o: &Self) -> bool {
        self.to_bits() == o.to_bits() || (NAN_IS_ONE_VALUE.with(std::cell::Cell::get) && self.is_nan() && o.is_nan())
    }
    fn near(&self, _r: &mut Rng) -> Self { if self.to_bits() == 3.25f64.to_bits() { 3.5 } else { 3.25 } }
    fn dup(&self) -> Self { *self }
    fn name() -> String { "f64".into() }
}
impl V for () {
    fn gen_v(_r: &mut Rng, _d: u32) -> Self {}
    fn same(&self, _o: &Self) -> bool { true }
    fn near(&self, _r: &mut Rng) -> Self {}
    fn dup(&self) -> Self {}
    fn name() -> String { "()".into() }
}
impl V for String {
    fn gen_v(r: &mut Rng, _d: u32) -> Self {
        match r.below(8) {
            0 => String::new(),
            1 => "a".into(),
            2 => "ab".into(),
            3 => "\u{10ffff}\0".into(),
            4 => "x".repeat(127),
            5 => "y".repeat(128),
            6 => "z".repeat(r.range(129, 400) as usize),
            _ => (0..r.below(6)).map(|_| char::gen_v(r, 0)).collect(),
        }
    }
    fn same(&self, o: &Self) -> bool { self == o }
    fn near(&self, _r: &mut Rng) -> Self {
        let mut s = self.clone();
        if s.pop().is_none() {
            s.push('a');
        }
        s
    }
    fn dup(&self) -> Self { self.clone() }
    fn name() -> String { "String".into() }
}

pub fn len(r: &mut Rng, d: u32) -> usize {
    if d == 0 {
        return r.below(2) as usize;
    }
    match r.below(8) {
        0 => 0,
        1 => 1,
        2 => 127,
        3 => 128,
        _ => r.below(5) as usize,
    }
    .min(if d >= 2 { 128 } else { 6 })
}

macro_rules! seq_v {
    ($($c:ident),*) => {$(
        impl<T: V> V for $c<T> {
            fn gen_v(r: &mut Rng, d: u32) -> Self { (0..len(r, d)).map(|_| T::gen_v(r, d.saturating_sub(1))).collect() }
            fn same(&self, o: &Self) -> bool { self.len() == o.len() && self.iter().zip(o.iter()).all(|(a, b)| a.same(b)) }
            fn near(&self, r: &mut Rng) -> Self {
                let mut v: Vec<T> = Vec::new();
                let mut it: Vec<&T> = self.iter().collect();
                if it.is_empty() || r.chance(1, 2) {
                    // one more element
                    for x in it { v.push(x.dup()); }
                    v.push(T::gen_v(r, 0));
                } else {
                    it.pop();
                    for x in it { v.push(x.dup()); }
                }
                v.into_iter().collect()
            }
            fn dup(&self) -> Self { self.iter().map(V::dup).collect() }
            fn name() -> String { format!("{}<{}>", stringify!($c), T::name()) }
        }
    )*};
}

seq_v!(Vec, VecDeque, LinkedList);

impl<T: V> V for Option<T> {
    fn gen_v(r: &mut Rng, d: u32) -> Self { if r.chance(1, 3) { None } else { Some(T::gen_v(r, d.saturating_sub(1))) } }
    fn same(&self, o: &Self) -> bool {
        match (self, o) {
            (None, None) => true,
            (Some(a), Some(b)) => a.same(b),
            _ => false,
        }
    }
    fn near(&self, r: &mut Rng) -> Self {
        match self {
            None => Some(T::gen_v(r, 0)),
            Some(_) => None,
        }
    }
    fn dup(&self) -> Self { self.as_ref().map(V::dup) }
    fn name() -> String { format!("Option<{}>", T::name()) }
}
impl<T: V, E: V> V for Result<T, E> {
    fn gen_v(r: &mut Rng, d: u32) -> Self {
        if r.chance(1, 2) { Ok(T::gen_v(r, d.saturating_sub(1))) } else { Err(E::gen_v(r, d.saturating_sub(1))) }
    }
    fn same(&self, o: &Self) -> bool {
        match (self, o) {
            (Ok(a), Ok(b)) => a.same(b),
            (Err(a), Err(b)) => a.same(b),
            _ => false,
        }
    }
    fn near(&self, r: &mut Rng) -> Self {
        match self {
            Ok(_) => Err(E::gen_v(r, 0)),
            Err(_) => Ok(T::gen_v(r, 0)),
        }
    }
    fn dup(&self) -> Self {
        match self {
            Ok(v) => Ok(v.dup()),
            Err(e) => Err(e.dup()),
        }
    }
    fn name() -> String { format!("Result<{},{}>", T::name(), E::name()) }
}
macro_rules! ptr_v {
    ($($c:ident),*) => {$(
        impl<T: V> V for $c<T> {
            fn gen_v(r: &mut Rng, d: u32) -> Self { $c::new(T::gen_v(r, d)) }
            fn same(&self, o: &Self) -> bool { (**self).same(&**o) }
            fn near(&self, r: &mut Rng) -> Self { $c::new((**self).near(r)) }
            fn dup(&self) -> Self { $c::new((**self).dup()) }
            fn name() -> String { format!("{}<{}>", stringify!($c), T::name()) }
        }
    )*};
}
ptr_v!(Box, Rc, Arc);

impl<A: V, B: V> V for (A, B) {
    fn gen_v(r: &mut Rng, d: u32) -> Self { (A::gen_v(r, d.saturating_sub(1)), B::gen_v(r, d.saturating_sub(1))) }
    fn same(&self, o: &Self) -> bool { self.0.same(&o.0) && self.1.same(&o.1) }
    fn near(&self, r: &mut Rng) -> Self {
        if r.chance(1, 2) { (self.0.near(r), self.1.dup()) } else { (self.0.dup(), self.1.near(r)) }
    }
    fn dup(&self) -> Self { (self.0.dup(), self.1.dup()) }
    fn name() -> String { format!("({},{})", A::name(), B::name()) }
}
impl<A: V, B: V, C: V> V for (A, B, C) {
    fn gen_v(r: &mut Rng, d: u32) -> Self {
        (A::gen_v(r, d.saturating_sub(1)), B::gen_v(r, d.saturating_sub(1)), C::gen_v(r, d.saturating_sub(1)))
    }
    fn same(&self, o: &Self) -> bool { self.0.same(&o.0) && self.1.same(&o.1) && self.2.same(&o.2) }
    fn near(&self, r: &mut Rng) -> Self { (self.0.dup(), self.1.near(r), self.2.dup()) }
    fn dup(&self) -> Self { (self.0.dup(), self.1.dup(), self.2.dup()) }
    fn name() -> String { format!("({},{},{})", A::name(), B::name(), C::name()) }
}
impl<T: V, const N: usize> V for [T; N] {
    fn gen_v(r: &mut Rng, d: u32) -> Self { std::array::from_fn(|_| T::gen_v(r, d.saturating_sub(1))) }
    fn same(&self, o: &Self) -> bool { self.iter().zip(o.iter()).all(|(a, b)| a.same(b)) }
    fn near(&self, r: &mut Rng) -> Self {
        let i = r.usize(N.max(1));
        std::array::from_fn(|j| if j == i { self[j].near(r) } else { self[j].dup() })
    }
    fn dup(&self) -> Self { std::array::from_fn(|i| self[i].dup()) }
    fn name() -> String { format!("[{};{}]", T::name(), N) }
}
impl<K: V + Ord, W: V> V for BTreeMap<K, W> {
    fn gen_v(r: &mut Rng, d: u32) -> Self {
        (0..len(r, d)).map(|_| (K::gen_v(r, d.saturating_sub(1)), W::gen_v(r, d.saturating_sub(1)))).collect()
    }
    fn same(&self, o: &Self) -> bool {
        self.len() == o.len() && self.iter().zip(o.iter()).all(|(a, b)| a.0.same(b.0) && a.1.same(b.1))
    }
    fn near(&self, r: &mut Rng) -> Self {
        let mut m: BTreeMap<K, W> = self.iter().map(|(k, v)| (k.dup(), v.dup())).collect();
        if self.len() >= 2 && r.chance(1, 2) {
            let mut it = self.iter();
            let (k1, v1) = it.next().unwrap();
            if let Some((k2, v2)) = it.find(|(_, v)| !v.same(v1)) {
                m.insert(k1.dup(), v2.dup());
                m.insert(k2.dup(), v1.dup());
                return m;
            }
        }
        if let Some((k, v)) = self.iter().next() {
            if r.chance(1, 2) {
                m.insert(k.dup(), v.near(r));
            } else {
                m.remove(k);
            }
        } else {
            m.insert(K::gen_v(r, 0), W::gen_v(r, 0));
        }
        m
    }
    fn dup(&self) -> Self { self.iter().map(|(k, v)| (k.dup(), v.dup())).collect() }
    fn name() -> String { format!("BTreeMap<{},{}>", K::name(), W::name()) }
}
impl<K: V + Ord> V for BTreeSet<K> {
    fn gen_v(r: &mut Rng, d: u32) -> Self { (0..len(r, d)).map(|_| K::gen_v(r, d.saturating_sub(1))).collect() }
    fn same(&self, o: &Self) -> bool { self.len() == o.len() && self.iter().zip(o.iter()).all(|(a, b)| a.same(b)) }
    fn near(&self, r: &mut Rng) -> Self {
        let mut m: BTreeSet<K> = self.iter().map(V::dup).collect();
        if let Some(k) = self.iter().next() {
            m.remove(k);
        } else {
            m.insert(K::gen_v(r, 0));
        }
        m
    }
    fn dup(&self) -> Self { self.iter().map(V::dup).collect() }
    fn name() -> String { format!("BTreeSet<{}>", K::name()) }
}
impl<K: V + Eq + std::hash::Hash, W: V> V for HashMap<K, W, SeededState> {
    fn gen_v(r: &mut Rng, d: u32) -> Self {
        let mut m = HashMap::with_hasher(SeededState(r.next_u64()));
        for _ in 0..len(r, d) {
            m.insert(K::gen_v(r, d.saturating_sub(1)), W::gen_v(r, d.saturating_sub(1)));
        }
        m
    }
    fn same(&self, o: &Self) -> bool { self.len() == o.len() && self.iter().all(|(k, v)| o.get(k).is_some_and(|w| v.same(w))) }
    fn near(&self, r: &mut Rng) -> Self {
        let mut m = HashMap::with_hasher(SeededState(r.next_u64()));
        for (k, v) in self {
            m.insert(k.dup(), v.dup());
        }
        // the same keys and the same values in another assignment (seeded
        // change C13-4: values must stay bound to their keys)
        if self.len() >= 2 && r.chance(1, 2) {
            let mut it = self.iter();
            let (k1, v1) = it.next().unwrap();
            if let Some((k2, v2)) = it.find(|(_, v)| !v.same(v1)) {
                m.insert(k1.dup(), v2.dup());
                m.insert(k2.dup(), v1.dup());
                return m;
            }
        }
        if let Some((k, v)) = self.iter().next() {
            if r.chance(1, 2) {
                m.insert(k.dup(), v.near(r));
            } else {
                m.remove(k);
            }
        } else {
            m.insert(K::gen_v(r, 0), W::gen_v(r, 0));
        }
        m
    }
    fn dup(&self) -> Self {
        let mut m = HashMap::with_hasher(self.hasher().clone());
        for (k, v) in self {
            m.insert(k.dup(), v.dup());
        }
        m
    }
    fn name() -> String { format!("HashMap<{},{}>", K::name(), W::name()) }
}
impl<K: V + Eq + std::hash::Hash> V for HashSet<K, SeededState> {
    fn gen_v(r: &mut Rng, d: u32) -> Self {
        let mut m = HashSet::with_hasher(SeededState(r.next_u64()));
        for _ in 0..len(r, d) {
            m.insert(K::gen_v(r, d.saturating_sub(1)));
        }
        m
    }
    fn same(&self, o: &Self) -> bool { self.len() == o.len() && self.iter().all(|k| o.contains(k)) }
    fn near(&self, r: &mut Rng) -> Self {
        let mut m = HashSet::with_hasher(SeededState(r.next_u64()));
        for k in self {
            m.insert(k.dup());
        }
        if let Some(k) = self.iter().next() {
            m.remove(k);
        } else {
            m.insert(K::gen_v(r, 0));
        }
        m
    }
    fn dup(&self) -> Self {
        let mut m = HashSet::with_hasher(self.hasher().clone());
        for k in self {
            m.insert(k.dup());
        }
        m
    }
    fn name() -> String { format!("HashSet<{}>", K::name()) }
}

// ---- derived types --------------------------------------------------------------------

#[derive(Debug, Clone, PartialEq, Eq, Hash, PartialOrd, Ord, Encode, Decode, StableHash, Identifiable)]
pub struct Named {
    pub a: u32,
    pub b: String,
    pub c: Vec<u8>,
}
#[derive(Debug, Clone, PartialEq, Eq, Hash, PartialOrd, Ord, Encode, Decode, StableHash)]
pub struct Tup(pub String, pub String);
#[derive(Debug, Clone, PartialEq, Eq, Hash, PartialOrd, Ord, Encode, Decode, StableHash)]
pub struct UnitS;
#[derive(Debug, Clone, PartialEq, Eq, Hash, PartialOrd, Ord, Encode, Decode, StableHash)]
pub enum En {
    A,
    B(u8),
    C { x: u16, y: String },
    D(Vec<u8>, Vec<u8>),
    E,
}
#[derive(Debug, Clone, PartialEq, Eq, Encode, Decode, StableHash)]
pub struct Gen<T> {
    pub t: T,
    pub u: Option<T>,
}
#[derive(Debug, Clone, PartialEq, Eq, Encode, Decode, StableHash)]
pub enum GenE<T, U> {
    L(T),
    R(U),
    Both(T, U),
}
#[derive(Debug, Clone, PartialEq, Eq, Encode, Decode)]
pub struct WithSkip {
    pub a: u8,
    #[serialize(skip)]
    pub skipped: u32,
    pub b: String,
}

impl V for Named {
    fn gen_v(r: &mut Rng, d: u32) -> Self { Named { a: u32::gen_v(r, d), b: String::gen_v(r, d), c: Vec::<u8>::gen_v(r, 1) } }
    fn same(&self, o: &Self) -> bool { self == o }
    fn near(&self, r: &mut Rng) -> Self {
        let mut n = self.clone();
        match r.below(3) {
            0 => n.a = n.a.wrapping_add(1),
            1 => n.b = n.b.near(r),
            _ => n.c = n.c.near(r),
        }
        n
    }
    fn dup(&self) -> Self { self.clone() }
    fn name() -> String { "Named".into() }
}
impl V for Tup {
    fn gen_v(r: &mut Rng, d: u32) -> Self { Tup(String::gen_v(r, d), String::gen_v(r, d)) }
    fn same(&self, o: &Self) -> bool { self == o }
    fn near(&self, _r: &mut Rng) -> Self {
        // move the boundary between the two fields
        let mut a = self.0.clone();
        let mut b = self.1.clone();
        if let Some(c) = a.pop() {
            b.insert(0, c);
        } else if !b.is_empty() {
            a.push(b.remove(0));
        } else {
            a.push('q');
        }
        Tup(a, b)
    }
    fn dup(&self) -> Self { self.clone() }
    fn name() -> String { "Tup".into() }
}
impl V for UnitS {
    fn gen_v(_r: &mut Rng, _d: u32) -> Self { UnitS }
    fn same(&self, _o: &Self) -> bool { true }
    fn near(&self, _r: &mut Rng) -> Self { UnitS }
    fn dup(&self) -> Self { self.clone() }
    fn name() -> String { "UnitS".into() }
}
impl V for En {
    fn gen_v(r: &mut Rng, d: u32) -> Self {
        match r.below(5) {
            0 => En::A,
            1 => En::B(u8::gen_v(r, d)),
            2 => En::C { x: u16::gen_v(r, d), y: String::gen_v(r, d) },
            3 => En::D(Vec::<u8>::gen_v(r, 1), Vec::<u8>::gen_v(r, 1)),
            _ => En::E,
        }
    }
    fn same(&self, o: &Self) -> bool { self == o }
    fn near(&self, r: &mut Rng) -> Self {
        match self {
            En::A => En::E,
            En::E => En::A,
            En::B(x) => {
                if r.chance(1, 2) { En::B(x.wrapping_add(1)) } else { En::A }
            }
            En::C { x, y } => En::C { x: x.wrapping_add(1), y: y.clone() },
            En::D(a, b) => {
                // move the boundary
                let mut a = a.clone();
                let mut b = b.clone();
                if let Some(c) = a.pop() {
                    b.insert(0, c);
                } else {
                    a.push(9);
                }
                En::D(a, b)
            }
        }
    }
    fn dup(&self) -> Self { self.clone() }
    fn name() -> String { "En".into() }
}
impl<T: V + Clone + PartialEq> V for Gen<T> {
    fn gen_v(r: &mut Rng, d: u32) -> Self { Gen { t: T::gen_v(r, d.saturating_sub(1)), u: Option::<T>::gen_v(r, d) } }
    fn same(&self, o: &Self) -> bool { self.t.same(&o.t) && self.u.same(&o.u) }
    fn near(&self, r: &mut Rng) -> Self {
        if r.chance(1, 2) { Gen { t: self.t.near(r), u: self.u.clone() } } else { Gen { t: self.t.clone(), u: self.u.near(r) } }
    }
    fn dup(&self) -> Self { self.clone() }
    fn name() -> String { format!("Gen<{}>", T::name()) }
}
impl<T: V + Clone, U: V + Clone> V for GenE<T, U> {
    fn gen_v(r: &mut Rng, d: u32) -> Self {
        match r.below(3) {
            0 => GenE::L(T::gen_v(r, d.saturating_sub(1))),
            1 => GenE::R(U::gen_v(r, d.saturating_sub(1))),
            _ => GenE::Both(T::gen_v(r, d.saturating_sub(1)), U::gen_v(r, d.saturating_sub(1))),
        }
    }
    fn same(&self, o: &Self) -> bool {
        match (self, o) {
            (GenE::L(a), GenE::L(b)) => a.same(b),
            (GenE::R(a), GenE::R(b)) => a.same(b),
            (GenE::Both(a, c), GenE::Both(b, d)) => a.same(b) && c.same(d),
            _ => false,
        }
    }
    fn near(&self, r: &mut Rng) -> Self {
        match self {
            GenE::L(a) => GenE::L(a.near(r)),
            GenE::R(a) => GenE::R(a.near(r)),
            GenE::Both(a, b) => GenE::Both(a.clone(), b.near(r)),
        }
    }
    fn dup(&self) -> Self { self.clone() }
    fn name() -> String { format!("GenE<{},{}>", T::name(), U::name()) }
}
impl V for WithSkip {
    fn gen_v(r: &mut Rng, d: u32) -> Self { WithSkip { a: u8::gen_v(r, d), skipped: 0, b: String::gen_v(r, d) } }
    fn same(&self, o: &Self) -> bool { self.a == o.a && self.b == o.b }
    fn near(&self, _r: &mut Rng) -> Self { WithSkip { a: self.a.wrapping_add(1), skipped: 0, b: self.b.clone() } }
    fn dup(&self) -> Self { self.clone() }
    fn name() -> String { "WithSkip".into() }
}

// Pairs of fixed-width integers whose near miss moves half an integer across
// the field boundary: (lo | hi << H, b) vs (lo, hi | b << H).  The two differ
// as values, and feed different streams to the hasher only as long as every
// integer is written at its full width.
macro_rules! int_pair {
    ($name:ident, $t:ty, $h:expr) => {
        #[derive(Debug, Clone, PartialEq, Eq, Encode, Decode, StableHash)]
        pub struct $name(pub $t, pub $t);
        impl V for $name {
            fn gen_v(r: &mut Rng, _d: u32) -> Self {
                let lo = 1 + r.below(100) as $t;
                let hi = r.below(3) as $t;
                let b = r.below(100) as $t;
                $name(lo | (hi << $h), b)
            }
            fn same(&self, o: &Self) -> bool { self == o }
            fn near(&self, _r: &mut Rng) -> Self {
                let mask: $t = (1 << $h) - 1;
                let (lo, hi) = (self.0 & mask, self.0 >> $h);
                if hi != 0 && self.1 <= mask { $name(lo, hi | (self.1 << $h)) } else { $name(self.0 + 1, self.1) }
            }
            fn dup(&self) -> Self { self.clone() }
            fn name() -> String { stringify!($name).into() }
        }
    };
}
int_pair!(PairU16, u16, 8);
int_pair!(PairU32, u32, 16);
int_pair!(PairU64, u64, 32);
int_pair!(PairU128, u128, 64);
int_pair!(PairI128, i128, 64);
