#!/usr/bin/env python3
"""Regenerates MANIFEST.json from checks_cfg.py (single source of truth)."""
import json, os, subprocess
from checks_cfg import PROPS, MANIFEST_TEXT, NOT_APPLICABLE, HOOK_COMMITS

ROOT = os.path.dirname(os.path.abspath(__file__))
ids = [json.loads(l)["id"] for l in open(os.path.join(ROOT, "properties.jsonl"))]
checks = []
for pid in ids:
    if pid not in PROPS:
        continue
    c = PROPS[pid]
    t = MANIFEST_TEXT[pid]
    checks.append(dict(
        property_id=pid,
        quick_cmd=f"./check {pid} --tier quick",
        thorough_cmd=f"./check {pid} --tier thorough",
        evidence_file=f"evidence/{pid}.json",
        replay_cmd_template="./check replay {path}",
        engine=c["bin"],
        level_claimed=dict(category=c["level"], text=t["text"], design_ref=t["design_ref"]),
        level_note=t["note"],
        technique=t["technique"],
    ))
na = [dict(property_id=p, reason=NOT_APPLICABLE[p]) for p in ids if p not in PROPS]
missing = [p for p in ids if p not in PROPS and p not in NOT_APPLICABLE]
assert not missing, missing
m = dict(
    version=1,
    setup_cmd="cd /verif && CARGO_NET_OFFLINE=true cargo build --release --offline --workspace",
    hooks=dict(
        guard="cargo feature `verif` on crates qbice and qbice_storage (off by default)",
        enable="the harness crates under /verif depend on /repo/crates/* by path with features=[\"verif\"]",
        baseline_off_cmd="cd /repo && cargo nextest run --workspace --no-fail-fast --test-threads 8 --offline",
        source_commits=HOOK_COMMITS,
        add_only=True,
    ),
    engines=[
        dict(name="engine_sim", path="engine_sim", serves_properties=[p for p in ids if PROPS.get(p, {}).get("bin") == "engine_sim"],
             kind_free_text="real qbice engine on a paused tokio current_thread runtime under a seeded yield-injecting controller; harness executors interpret generated programs; from-scratch oracle"),
        dict(name="storage_sim", path="storage_sim", serves_properties=[p for p in ids if PROPS.get(p, {}).get("bin") == "storage_sim"],
             kind_free_text="storage-layer structures driven by token-scheduled real threads against reference models; SimKv simulated disk"),
        dict(name="kv_sim", path="kv_sim", serves_properties=[p for p in ids if PROPS.get(p, {}).get("bin") == "kv_sim"],
             kind_free_text="real RocksDB / Fjall backends on a scratch directory against a reference map, with close/reopen and kill -9"),
        dict(name="codec_sim", path="codec_sim", serves_properties=[p for p in ids if PROPS.get(p, {}).get("bin") == "codec_sim"],
             kind_free_text="stream simulation (chunked / interrupted Read and Write) over a typed value universe; stable-hash recorder"),
    ],
    checks=checks,
    not_applicable=na,
    notes="Deterministic simulation with fault injection; see DESIGN.md. Known findings: known_findings.txt. "
          "VERIF_SEED, VERIF_TIER, VERIF_BUDGET_S and VERIF_WORKERS are honoured.",
)
json.dump(m, open(os.path.join(ROOT, "MANIFEST.json"), "w"), indent=1)
print("MANIFEST.json written:", len(checks), "checks,", len(na), "not applicable")
