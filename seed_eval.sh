#!/bin/bash
# seed_eval.sh <seed-id> <worktree> <n> <test-binary-name> <check ids...>
# 1. confirms the seeded change in the scratch worktree (demo fails with the
#    patch, passes without), 2. copies it to /verif/seeded/<seed-id>/,
# 3. applies it to /repo, runs the given checks, 4. restores /repo.
# PHASE=confirm does 1-2 only (can run for several worktrees in parallel),
# PHASE=check does 3-4 only; default both.  Logs: /tmp/seed_<id>_*.log
set -u
ID=$1; WT=$2; N=$3; BIN=$4; shift 4
S=$WT/SEED/$N
OUT=/verif/seeded/$ID
mkdir -p $OUT
PHASE=${PHASE:-both}
L=/tmp/seed_${ID}
if [ "$PHASE" != check ]; then
cp $S/patch.diff $S/demo.diff $OUT/
cp $S/README.md $OUT/README.md
cd $WT
git checkout -q -- . 2>/dev/null
git apply $S/demo.diff || { echo "demo does not apply"; exit 2; }
git apply $S/patch.diff || { echo "patch does not apply"; exit 2; }
cargo nextest run ${NEXTEST_ARGS:---workspace} --offline -E "${FILTER:-binary($BIN)}" > ${L}_with.log 2>&1; W=$?
git apply -R $S/demo.diff
cargo nextest run --workspace --no-fail-fast --offline --test-threads 8 > ${L}_suite.log 2>&1
SUITE=$(grep -E "^\s+Summary" ${L}_suite.log | tail -1); FAILED=$(grep -E "^\s+(FAIL|TIMEOUT|SIGABRT)" ${L}_suite.log | awk '{print $NF}' | sort -u | tr '\n' ' ')
echo "suite with patch (no demo): $SUITE failed: $FAILED" | tee $OUT/suite_with_patch.txt
git apply $S/demo.diff
git apply -R $S/patch.diff
cargo nextest run ${NEXTEST_ARGS:---workspace} --offline -E "${FILTER:-binary($BIN)}" > ${L}_without.log 2>&1; WO=$?
git checkout -q -- . ; git clean -fdq crates >/dev/null 2>&1
echo "demo with patch: exit $W ; without patch: exit $WO" | tee $OUT/demo_result.txt
fi
[ "$PHASE" = confirm ] && exit 0
W=${W:-?}; WO=${WO:-?}
cd /repo
git apply $S/patch.diff || { echo "patch does not apply to /repo"; exit 2; }
RES=""
for c in "$@"; do
  o=$(cd /verif && ./check $c 2>&1 | grep -E "quick:|VIOLATION|class=" | head -6)
  v=$(echo "$o" | grep -c VIOLATION)
  RES="$RES $c:$v"
  echo "--- $c"; echo "$o" | cut -c1-260
done
git -C /repo checkout -- .
echo "RESULT $ID demo_with=$W demo_without=$WO checks:$RES"
